"""T2 — handler table of the render path (C38).

Reads /repo/src/jinja2/*.py with `ast` (never imports it) and reports every `try` statement
with `except` clauses: module.function, line range of the try body, and per clause the class
names it catches and what its body does with the exception:

    R  re-raise the same object   (bare `raise`, `raise <bound name>`, or a call of
                                   `handle_exception(...)`, whose own definition is checked to be
                                   `raise rewrite_traceback_stack(...)` returning
                                   `exc_value.with_traceback(...)`)
    U  convert to undefined       (returns `<...>.undefined(...)`)
    P  pass / continue
    O  raise another exception    (every path of the body ends in `raise X(...)`)
    V  return / fall through with a value  (everything else, incl. conditional re-raise)

Fail-closed: a clause shape or class name that is not recognised raises TranslatorError; the
check treats that as a broken obligation.  Also usable on generated template code
(scan_source on the Python text the code generator emits).
"""
from __future__ import annotations

import ast
import os

MODULES = ["runtime", "environment", "filters", "tests", "async_utils", "sandbox", "utils", "debug"]

# functions that are not on the render path (with the reason, copied into the evidence)
NOT_RENDER_PATH = {
    "utils.import_string": "imports extension / loader classes while an Environment is constructed",
}

KNOWN_CLASSES = [
    "BaseException", "Exception", "LookupError", "KeyError", "IndexError", "AttributeError", "TypeError",
    "ValueError", "UnicodeError", "StopIteration", "StopAsyncIteration", "ArithmeticError", "OverflowError",
    "ZeroDivisionError", "RuntimeError", "RecursionError", "NotImplementedError", "ImportError", "OSError",
    "SyntaxError", "MemoryError", "AssertionError", "NameError", "GeneratorExit", "KeyboardInterrupt",
    "SystemExit", "CancelledError", "TemplateError", "TemplateNotFound", "TemplatesNotFound",
    "TemplateSyntaxError", "TemplateAssertionError", "TemplateRuntimeError", "UndefinedError", "SecurityError",
    "FilterArgumentError",
]
ALIASES = {"IOError": "OSError", "EnvironmentError": "OSError"}


class TranslatorError(Exception):
    pass


def _class_names(node, where):
    if node is None:
        return ["BaseException"]
    if isinstance(node, ast.Tuple):
        out = []
        for e in node.elts:
            out += _class_names(e, where)
        return out
    if isinstance(node, ast.Name):
        n = ALIASES.get(node.id, node.id)
    elif isinstance(node, ast.Attribute):
        # e.g. self._undefined_exception (a class chosen at run time): worst case
        if isinstance(node.value, ast.Name) and node.value.id == "self":
            return ["BaseException"]
        n = ALIASES.get(node.attr, node.attr)
    else:
        raise TranslatorError(f"{where}: unrecognised except expression {ast.dump(node)[:80]}")
    if n not in KNOWN_CLASSES:
        raise TranslatorError(f"{where}: exception class {n!r} is not in the model's lattice")
    return [n]


def _is_handle_exception_call(node):
    for sub in ast.walk(node):
        if isinstance(sub, ast.Call):
            f = sub.func
            if isinstance(f, ast.Attribute) and f.attr == "handle_exception":
                return True
    return False


def _ends_in_raise(stmts, bound):
    """('same' | 'other:<cls>' | None) when every path through stmts ends in a raise."""
    if not stmts:
        return None
    last = stmts[-1]
    if isinstance(last, ast.Raise):
        if last.exc is None:
            return "same"
        if isinstance(last.exc, ast.Name) and bound and last.exc.id == bound and last.cause is None:
            return "same"
        e = last.exc
        if isinstance(e, ast.Call):
            e = e.func
        name = e.id if isinstance(e, ast.Name) else (e.attr if isinstance(e, ast.Attribute) else None)
        if name is None:
            return "other:Exception"
        name = ALIASES.get(name, name)
        return "other:" + (name if name in KNOWN_CLASSES else "Exception")
    if isinstance(last, ast.Try):
        # nested try inside a handler (do_reverse): the paths are its body and its handlers
        outs = [_ends_in_raise(last.body, bound)] + [_ends_in_raise(h.body, h.name) for h in last.handlers]
        if all(o is not None and o.startswith("other:") for o in outs[1:]) and outs[1:]:
            # body may return a value; a handler raises: mixed -> not a pure raise
            return None if outs[0] is None else outs[1]
        return None
    if isinstance(last, ast.If):
        a = _ends_in_raise(last.body, bound)
        b = _ends_in_raise(last.orelse, bound)
        if a is not None and a == b:
            return a
        return None
    return None


def classify(handler):
    """kind of an except clause body"""
    body = handler.body
    bound = handler.name
    if all(isinstance(s, (ast.Pass, ast.Continue)) for s in body):
        return "P"
    # a call of handle_exception anywhere in a one-statement body: re-raise of the same object
    if len(body) == 1 and _is_handle_exception_call(body[0]):
        return "R"
    end = _ends_in_raise(body, bound)
    if end == "same":
        # statements before the raise must not rebind the name
        for s in body[:-1]:
            for sub in ast.walk(s):
                if isinstance(sub, ast.Name) and isinstance(sub.ctx, ast.Store) and sub.id == bound:
                    return "V"
        return "R"
    if end is not None and end.startswith("other:"):
        return "O:" + end[6:]
    for s in body:
        for sub in ast.walk(s):
            if isinstance(sub, ast.Return) and isinstance(sub.value, ast.Call):
                f = sub.value.func
                if isinstance(f, ast.Attribute) and f.attr in ("undefined", "unsafe_undefined"):
                    return "U"
    return "V"


def _func_kind(fn):
    is_async = isinstance(fn, ast.AsyncFunctionDef)
    has_yield = False
    stack = list(fn.body)
    while stack:
        n = stack.pop()
        if isinstance(n, (ast.FunctionDef, ast.AsyncFunctionDef, ast.Lambda, ast.ClassDef)):
            continue
        if isinstance(n, (ast.Yield, ast.YieldFrom)):
            has_yield = True
        stack.extend(ast.iter_child_nodes(n))
    if is_async:
        return "asyncgen" if has_yield else "coroutine"
    return "generator" if has_yield else "plain"


def scan_source(src, module):
    """-> list of try records found in one Python source text"""
    tree = ast.parse(src)
    out = []

    def visit(node, qual, fkind):
        for ch in ast.iter_child_nodes(node):
            if isinstance(ch, (ast.FunctionDef, ast.AsyncFunctionDef)):
                visit(ch, qual + [ch.name], _func_kind(ch))
            elif isinstance(ch, ast.ClassDef):
                visit(ch, qual + [ch.name], fkind)
            else:
                if isinstance(ch, ast.Try) and ch.handlers:
                    fn = module + "." + ".".join(qual) if qual else module + ".<module>"
                    rec = {
                        "module": module, "fn": fn, "fkind": fkind, "lineno": ch.lineno,
                        "body_lo": ch.body[0].lineno, "body_hi": max(getattr(s, "end_lineno", s.lineno) for s in ch.body),
                        "handlers": [],
                    }
                    for h in ch.handlers:
                        where = f"{fn}:{h.lineno}"
                        rec["handlers"].append({"classes": _class_names(h.type, where), "kind": classify(h),
                                                "text": (ast.unparse(h.type) if h.type is not None else "<bare>")})
                    out.append(rec)
                visit(ch, qual, fkind)

    visit(tree, [], "plain")
    return out


def check_handle_exception(src_dir):
    """The R classification of `handle_exception()` calls rests on these two shapes."""
    env = ast.parse(open(os.path.join(src_dir, "environment.py")).read())
    ok_env = False
    for n in ast.walk(env):
        if isinstance(n, ast.FunctionDef) and n.name == "handle_exception":
            stmts = [s for s in n.body if not (isinstance(s, ast.Expr) and isinstance(s.value, ast.Constant))]
            stmts = [s for s in stmts if not isinstance(s, ast.ImportFrom)]
            if (len(stmts) == 1 and isinstance(stmts[0], ast.Raise) and isinstance(stmts[0].exc, ast.Call)
                    and getattr(stmts[0].exc.func, "id", None) == "rewrite_traceback_stack"):
                ok_env = True
    dbg = ast.parse(open(os.path.join(src_dir, "debug.py")).read())
    ok_dbg = False
    for n in ast.walk(dbg):
        if isinstance(n, ast.FunctionDef) and n.name == "rewrite_traceback_stack":
            rets = [s for s in ast.walk(n) if isinstance(s, ast.Return)]
            from_exc_info = any(
                isinstance(s, ast.Assign) and isinstance(s.value, ast.Call) and ast.unparse(s.value.func) == "sys.exc_info"
                and isinstance(s.targets[0], ast.Tuple) and len(s.targets[0].elts) == 3
                and getattr(s.targets[0].elts[1], "id", None) == "exc_value" for s in ast.walk(n))
            rebinds = [s for s in ast.walk(n) if isinstance(s, ast.Assign)
                       and any(getattr(t, "id", None) == "exc_value" for t in s.targets)]
            rebind_ok = all(ast.unparse(s.value).startswith("t.cast(BaseException, exc_value)") for s in rebinds)
            ok_dbg = bool(rets) and from_exc_info and rebind_ok and all(
                isinstance(r.value, ast.Call) and ast.unparse(r.value.func) == "exc_value.with_traceback" for r in rets)
    return ok_env, ok_dbg


def scan_repo(src_root):
    """src_root = <repo>/src ; returns (records, skipped)"""
    d = os.path.join(src_root, "jinja2")
    recs, skipped = [], []
    for m in MODULES:
        for r in scan_source(open(os.path.join(d, m + ".py")).read(), m):
            if r["fn"] in NOT_RENDER_PATH:
                skipped.append((r["fn"], NOT_RENDER_PATH[r["fn"]]))
                continue
            recs.append(r)
    return recs, skipped


# ------------------------------------------------------------------ Coq text
def coq_cls(name):
    return f"B E_{name}"


def coq_kind(k):
    if k == "R":
        return "Reraise"
    if k == "U":
        return "ToUndefined"
    if k == "P":
        return "Pass"
    if k == "V":
        return "ReturnValue"
    if k.startswith("O:"):
        return f"RaiseOther ({coq_cls(k[2:])})"
    raise TranslatorError("kind " + k)


def coq_try(rec):
    hs = []
    for h in rec["handlers"]:
        hs.append("{| h_catch := [" + "; ".join(coq_cls(c) for c in h["classes"]) + "]; h_kind := " + coq_kind(h["kind"]) + " |}")
    return "[" + "; ".join(hs) + "]"


def coq_table(recs, name="handlers"):
    rows = []
    for r in recs:
        rows.append('  {| r_fn := "' + r["fn"] + '"%string; r_try := ' + coq_try(r) + " |}")
    return f"Definition {name} : list row :=\n [\n" + ";\n".join(rows) + "\n ].\n"


if __name__ == "__main__":
    import json
    import sys
    recs, skipped = scan_repo(sys.argv[1] if len(sys.argv) > 1 else "/repo/src")
    for r in recs:
        print(r["fn"], r["lineno"], r["fkind"], [(h["text"], h["kind"]) for h in r["handlers"]])
    print(check_handle_exception(os.path.join(sys.argv[1] if len(sys.argv) > 1 else "/repo/src", "jinja2")))
