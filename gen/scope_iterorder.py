#!/usr/bin/env python3
"""T4 — iteration-order sites (C30).

Scans compiler.py, idtracking.py, meta.py, nodes.py, ext.py, optimizer.py, parser.py, visitor.py of $VERIF_REPO/src/jinja2 with `ast` for
every place where the ORDER of a set can leak: `for ... in e`, comprehensions / generator
expressions over e, `next(iter(e))`, `sep.join(e)`, `list(e)`, `tuple(e)`, `enumerate(e)`,
`map(f, e)`, `zip(.., e, ..)`, starred `*e`, `seq += e`, `seq.extend(e)`, `seq + e`, where e is set-typed by a local inference:
  set() / set(...) / frozenset(...) / {a, b} / set comprehensions,
  set methods returning sets (union, intersection, difference, symmetric_difference, copy),
  binary | & - ^ of set-typed operands,
  names / attributes annotated `set[...]` (AnnAssign, function parameters, return annotations
  of module-level functions), names assigned from set-typed expressions in the same function,
  attributes assigned set-typed values anywhere in the file (self.x = set(...)),
  `X.pop()` / `X[-1]` where X is annotated `list[set[...]]`,
  and the attribute / variable names listed in HINTS (DESIGN §5.1 T4).
`sorted(e)` is reported as a site with sorted = true.  Order-insensitive uses (len, in,
update, add, discard, difference_update, ==, bool) are not sites.

Output: Coq text  Definition sites : list site := [...]  (file, function, kind, sorted, line).
Fail-closed: a syntax error or a missing file raises.
"""
import ast
import os
import sys

# everything that produces or rewrites the AST the code generator prints, and the generator itself
FILES = ["compiler.py", "idtracking.py", "meta.py", "nodes.py", "ext.py", "optimizer.py", "parser.py", "visitor.py"]
HINTS = {"stores", "undeclared", "undeclared_identifiers", "vars"}
SET_METHODS = {"union", "intersection", "difference", "symmetric_difference", "copy"}
ORDER_FUNCS = {"list", "tuple", "enumerate", "iter", "map", "zip", "reversed"}


def ann_is_set(a):
    s = ast.unparse(a) if a is not None else ""
    return s.startswith(("set[", "set", "frozenset", "t.Set", "t.FrozenSet", "t.AbstractSet", "t.MutableSet")) and not s.startswith("setattr")


def ann_is_list_of_set(a):
    s = ast.unparse(a) if a is not None else ""
    return s.replace(" ", "").startswith(("list[set[", "t.List[t.Set["))


class FileInfo(ast.NodeVisitor):
    """file-level facts: set-typed attributes, list-of-set attributes, set-returning functions"""

    def __init__(self):
        self.set_attrs = {}          # class name -> attributes holding a set
        self.listset_attrs = {}      # class name -> attributes holding a list of sets
        self.set_funcs = set()
        self.cls = None

    def visit_ClassDef(self, node):
        old, self.cls = self.cls, node.name
        self.set_attrs.setdefault(node.name, set())
        self.listset_attrs.setdefault(node.name, set())
        self.generic_visit(node)
        self.cls = old

    def visit_FunctionDef(self, node):
        if node.returns is not None and ann_is_set(node.returns):
            self.set_funcs.add(node.name)
        self.generic_visit(node)

    visit_AsyncFunctionDef = visit_FunctionDef

    def visit_AnnAssign(self, node):
        t = node.target
        name = t.attr if isinstance(t, ast.Attribute) else (t.id if isinstance(t, ast.Name) else None)
        if name and isinstance(t, ast.Attribute) and self.cls:
            if ann_is_set(node.annotation):
                self.set_attrs[self.cls].add(name)
            if ann_is_list_of_set(node.annotation):
                self.listset_attrs[self.cls].add(name)
        self.generic_visit(node)

    def visit_Assign(self, node):
        for t in node.targets:
            if isinstance(t, ast.Attribute) and is_set_literal(node.value) and self.cls:
                self.set_attrs[self.cls].add(t.attr)
        self.generic_visit(node)


def is_set_literal(e):
    if isinstance(e, (ast.Set, ast.SetComp)):
        return True
    if isinstance(e, ast.Call) and isinstance(e.func, ast.Name) and e.func.id in ("set", "frozenset"):
        return True
    return False


class Scanner:
    def __init__(self, fname, tree):
        self.fname = fname
        self.info = FileInfo()
        self.info.visit(tree)
        self.sites = []
        self.tree = tree

    # ---- type inference
    def is_set(self, e, env):
        if is_set_literal(e):
            return True
        if isinstance(e, ast.Name):
            return env.get(e.id) == "set" or (e.id in HINTS and e.id not in env)
        if isinstance(e, ast.Attribute):
            return self.attr_in(e, env, self.info.set_attrs) or e.attr in HINTS
        if isinstance(e, ast.Call):
            f = e.func
            if isinstance(f, ast.Name) and f.id in self.info.set_funcs:
                return True
            if isinstance(f, ast.Attribute):
                if f.attr in SET_METHODS and self.is_set(f.value, env):
                    return True
                if f.attr == "pop" and self.is_listset(f.value, env):
                    return True
        if isinstance(e, ast.Subscript) and self.is_listset(e.value, env):
            return True
        if isinstance(e, ast.BinOp) and isinstance(e.op, (ast.BitOr, ast.BitAnd, ast.Sub, ast.BitXor)):
            return self.is_set(e.left, env) and self.is_set(e.right, env)
        if isinstance(e, ast.IfExp):
            return self.is_set(e.body, env) or self.is_set(e.orelse, env)
        return False

    def attr_in(self, e, env, table):
        """e.attr where the class of e.value is known: `self` inside a class, or a variable
        assigned from a constructor call of a class of this file"""
        recv = e.value
        cls = None
        if isinstance(recv, ast.Name):
            if recv.id == "self":
                cls = env.get("<class>")
            else:
                v = env.get(recv.id)
                if isinstance(v, tuple) and v[0] == "inst":
                    cls = v[1]
        return cls is not None and e.attr in table.get(cls, ())

    def is_listset(self, e, env):
        if isinstance(e, ast.Attribute):
            return self.attr_in(e, env, self.info.listset_attrs)
        if isinstance(e, ast.Name):
            return env.get(e.id) == "listset"
        return False

    # ---- walk
    def scan(self):
        self.walk_body(self.tree.body, "<module>", {})
        return self.sites

    def walk_body(self, body, fn, env):
        for st in body:
            self.walk_stmt(st, fn, env)

    def bind(self, target, value, env):
        if isinstance(target, ast.Name):
            if isinstance(value, ast.Call) and isinstance(value.func, ast.Name) and value.func.id in self.info.set_attrs:
                env[target.id] = ("inst", value.func.id)
            elif value is not None and self.is_set(value, env):
                env[target.id] = "set"
            elif target.id in env and value is not None:
                env[target.id] = "other"
            elif value is not None:
                env.setdefault(target.id, "other")

    def walk_stmt(self, st, fn, env):
        if isinstance(st, (ast.FunctionDef, ast.AsyncFunctionDef)):
            sub = dict(env)
            for a in st.args.args + st.args.kwonlyargs:
                if a.annotation is not None and ann_is_set(a.annotation):
                    sub[a.arg] = "set"
                elif a.annotation is not None and ann_is_list_of_set(a.annotation):
                    sub[a.arg] = "listset"
                else:
                    sub[a.arg] = "other"
            self.walk_body(st.body, (fn + "." if fn != "<module>" else "") + st.name, sub)
            return
        if isinstance(st, ast.ClassDef):
            sub = dict(env)
            sub["<class>"] = st.name
            self.walk_body(st.body, (fn + "." if fn != "<module>" else "") + st.name, sub)
            return
        # bindings first (flow-insensitive enough for these files)
        if isinstance(st, ast.Assign):
            self.expr(st.value, fn, env)
            for t in st.targets:
                self.bind(t, st.value, env)
            return
        if isinstance(st, ast.AnnAssign):
            if st.value is not None:
                self.expr(st.value, fn, env)
            if isinstance(st.target, ast.Name):
                if ann_is_set(st.annotation):
                    env[st.target.id] = "set"
                elif ann_is_list_of_set(st.annotation):
                    env[st.target.id] = "listset"
                else:
                    env[st.target.id] = "other"
            return
        if isinstance(st, ast.AugAssign):
            # list += set, string accumulation from a set: the set's order lands in a sequence
            if isinstance(st.op, ast.Add) and self.is_set(st.value, env) and not self.is_set(st.target, env):
                self.add("augassign", fn, False, st.lineno)
            self.expr(st.value, fn, env)
            return
        if isinstance(st, (ast.For, ast.AsyncFor)):
            if isinstance(st.iter, (ast.Tuple, ast.List)) and isinstance(st.target, ast.Tuple):
                for j, tg in enumerate(st.target.elts):
                    if isinstance(tg, ast.Name):
                        col = [el.elts[j] for el in st.iter.elts if isinstance(el, (ast.Tuple, ast.List)) and len(el.elts) > j]
                        env[tg.id] = "set" if col and any(self.is_set(c, env) for c in col) else "other"
            elif isinstance(st.target, ast.Name):
                env[st.target.id] = "other"
            self.iter_site(st.iter, "for", fn, env, st.lineno)
            self.expr(st.iter, fn, env, top_iter=True)
            self.walk_body(st.body, fn, env)
            self.walk_body(st.orelse, fn, env)
            return
        for field, value in ast.iter_fields(st):
            if isinstance(value, list):
                for v in value:
                    if isinstance(v, ast.stmt):
                        self.walk_stmt(v, fn, env)
                    elif isinstance(v, ast.expr):
                        self.expr(v, fn, env)
                    elif isinstance(v, (ast.ExceptHandler, ast.match_case, ast.withitem)):
                        for f2, v2 in ast.iter_fields(v):
                            if isinstance(v2, list):
                                for x in v2:
                                    if isinstance(x, ast.stmt):
                                        self.walk_stmt(x, fn, env)
                            elif isinstance(v2, ast.expr):
                                self.expr(v2, fn, env)
            elif isinstance(value, ast.expr):
                self.expr(value, fn, env)

    def add(self, kind, fn, srt, line):
        self.sites.append((self.fname, fn, kind, srt, line))

    def iter_site(self, e, kind, fn, env, line):
        """e is iterated in an order-revealing way"""
        if isinstance(e, ast.Call) and isinstance(e.func, ast.Name) and e.func.id == "sorted" and e.args:
            if self.is_set(e.args[0], env):
                self.add(kind, fn, True, line)
            return
        if isinstance(e, ast.Call) and isinstance(e.func, ast.Name) and e.func.id in ("enumerate", "reversed", "iter", "list", "tuple") and e.args:
            self.iter_site(e.args[0], kind, fn, env, line)
            return
        if self.is_set(e, env):
            self.add(kind, fn, False, line)

    def expr(self, e, fn, env, top_iter=False):
        for node in ast.walk(e):
            if isinstance(node, (ast.ListComp, ast.GeneratorExp, ast.DictComp, ast.SetComp)):
                for g in node.generators:
                    # a set comprehension over a set yields a set again: order does not leak
                    kind = "comprehension"
                    if isinstance(node, ast.SetComp):
                        continue
                    self.iter_site(g.iter, kind, fn, env, node.lineno)
            elif isinstance(node, ast.Call):
                f = node.func
                if isinstance(f, ast.Name) and f.id == "next" and node.args and isinstance(node.args[0], ast.Call) \
                        and isinstance(node.args[0].func, ast.Name) and node.args[0].func.id == "iter" and node.args[0].args:
                    self.iter_site(node.args[0].args[0], "next_iter", fn, env, node.lineno)
                elif isinstance(f, ast.Attribute) and f.attr == "join" and node.args:
                    self.iter_site(node.args[0], "join", fn, env, node.lineno)
                elif isinstance(f, ast.Attribute) and f.attr in ("extend", "writelines") and node.args \
                        and not self.is_set(f.value, env):
                    self.iter_site(node.args[0], f.attr, fn, env, node.lineno)
                elif isinstance(f, ast.Name) and f.id in ("list", "tuple", "map", "zip") and node.args and not top_iter:
                    for a in node.args[(1 if f.id == "map" else 0):]:
                        self.iter_site(a, f.id, fn, env, node.lineno)
                elif isinstance(f, ast.Name) and f.id == "sorted" and node.args and not top_iter:
                    if self.is_set(node.args[0], env):
                        self.add("sorted_call", fn, True, node.lineno)
            elif isinstance(node, ast.BinOp) and isinstance(node.op, ast.Add):
                # sequence + set-typed operand (list(...) / sorted(...) wrappers are handled above)
                for side, other in ((node.left, node.right), (node.right, node.left)):
                    if self.is_set(side, env) and not self.is_set(other, env):
                        self.add("concat", fn, False, node.lineno)
            elif isinstance(node, ast.Starred):
                self.iter_site(node.value, "star", fn, env, node.lineno)


def scan_repo(src_dir):
    sites = []
    for f in FILES:
        p = os.path.join(src_dir, "jinja2", f)
        tree = ast.parse(open(p, encoding="utf-8").read(), filename=p)
        sites += Scanner(f, tree).scan()
    # de-duplicate (a `for x in sorted(s)` is seen by the statement and the expression walk)
    seen, out = set(), []
    for s in sites:
        k = (s[0], s[1], s[2], s[3], s[4])
        k2 = (s[0], s[1], s[4], s[3])
        if k2 in seen and s[2] in ("sorted_call",):
            continue
        if k in seen:
            continue
        seen.add(k)
        seen.add(k2)
        out.append(s)
    return out


def coq_text(sites):
    rows = ";\n  ".join(f'mkSite "{f}" "{fn}" "{k}" {"true" if s else "false"} {ln}' for f, fn, k, s, ln in sites)
    return ("(* generated by gen/scope_iterorder.py from the current source: do not edit *)\n"
            "From Coq Require Import List String Bool.\nImport ListNotations.\nOpen Scope string_scope.\n"
            "From JV Require Import Model.ScopeOrder.\n"
            f"Definition sites : list site := [\n  {rows}\n].\n"
            "(* obligation: every set-iteration site is sorted or is one of the sites the model accounts for *)\n"
            "Theorem sites_accounted : forallb site_ok sites = true.\nProof. vm_compute. reflexivity. Qed.\n"
            "(* and every site the model accounts for is still there (the table does not rot) *)\n"
            "Theorem accounted_present : forallb (fun k => existsb (fun s => site_is k s) sites) accounted = true.\n"
            "Proof. vm_compute. reflexivity. Qed.\n")


if __name__ == "__main__":
    src = os.path.join(os.environ.get("VERIF_REPO", "/repo"), "src")
    ss = scan_repo(src)
    if "--coq" in sys.argv:
        print(coq_text(ss))
    else:
        for s in ss:
            print(s)
