"""Coq text of Gen_loop.v around the terms produced by gen/loop_translate.py: the Definitions are
regenerated from the current source on every run, the proof script (symbolic evaluation by the
`crunch` tactic, for every state and both kinds of iterable) is fixed."""

HEADER = """(* regenerated from %(root)s/jinja2/runtime.py (LoopContext, AsyncLoopContext) by gen/loop_translate.py - do not edit *)
From Coq Require Import List NArith ZArith Bool String Lia.
Import ListNotations.
From JV Require Import Model.Loop Lib.PyLoop.
Open Scope string_scope. Open Scope Z_scope.

"""

PROOFS = r'''Definition d_length (s : st) : st * Z := (s, 0).
Definition d_index (s : st) : Z := 0.
Definition d_first (s : st) : bool := false.
Definition d_peek (s : st) : st * option item := (s, None).
Definition m_index (s : st) : Z := index0 s + 1.
Definition m_first (s : st) : bool := index0 s =? 0.

Definition run0 (b : list stmt) (s : st) (en : env) := execs Sized d_length d_index d_first d_peek b s en.
Definition run1 (k : kind) (b : list stmt) (s : st) (en : env) := execs k d_length m_index m_first d_peek b s en.
Definition run2 (k : kind) (b : list stmt) (s : st) (en : env) := execs k (m_length k) m_index m_first m_peek b s en.

Ltac lcbn :=
  cbn [execs exec eval env_get String.eqb Ascii.eqb Bool.eqb get_field set_field lv_opt opt_lv upd as_bool as_int
       same veq negb lexn_eqb as_num as_answer as_peek as_next fst snd
       iterable rem after lenc before current index0 last_changed depth0 m_index m_first] in *.
Ltac crunch :=
  unfold item in *;
  repeat (lcbn; rewrite ?lv_opt_opt_lv; unfold m_first, m_index, opt_lv in *;
          match goal with
          | |- context [negb ?b] =>
              match b with
              | context [match _ with _ => _ end] => fail 1
              | _ => destruct b eqn:?
              end
          | |- context [match ?x with _ => _ end] =>
              match x with
              | context [match _ with _ => _ end] => fail 1
              | _ => destruct x eqn:?
              end
          end);
  lcbn; try reflexivity; try congruence.
Ltac closes :=
  try match goal with s : st |- _ => destruct s end;
  unfold upd in *; cbn in *; rewrite ?lv_opt_opt_lv in *; subst;
  repeat match goal with H : negb ?b = _, H2 : ?b = _ |- _ => rewrite H2 in H; cbn in H end;
  try reflexivity; try discriminate; try congruence.

Theorem index_source_eq_model : forall s, as_num (run0 s_index s []) = (s, m_index s).
Proof. intros s. unfold run0, s_index. crunch. Qed.
Theorem first_source_eq_model : forall s, as_answer (run0 s_first s []) = (s, ABool (m_first s)).
Proof. intros s. unfold run0, s_first. crunch. Qed.
Theorem depth_source_eq_model : forall k s, as_answer (run0 s_depth s []) = m_query k s QDepth.
Proof. intros k s. unfold run0, s_depth. crunch. Qed.

Theorem length_source_eq_model : forall k s, as_num (run1 k s_length s []) = m_length k s.
Proof. intros k s. unfold run1, s_length, m_length. destruct k; crunch; closes. Qed.

Theorem peek_source_eq_model : forall s, as_peek (run1 Sized s_peek_next s []) = m_peek s.
Proof. intros s. unfold run1, s_peek_next, m_peek. crunch; closes. Qed.

Theorem next_source_eq_model : forall s, as_next (run2 Sized s_next s []) = m_next s.
Proof. intros s. unfold run2, s_next, m_next. crunch; closes. Qed.

Theorem last_source_eq_model : forall k s, as_answer (run2 k s_last s []) = m_query k s QLast.
Proof. intros k s. unfold run2, s_last. cbn [m_query]. crunch. Qed.
Theorem nextitem_source_eq_model : forall k s, as_answer (run2 k s_nextitem s []) = m_query k s QNextitem.
Proof. intros k s. unfold run2, s_nextitem. cbn [m_query]. crunch. Qed.
Theorem previtem_source_eq_model : forall k s, as_answer (run2 k s_previtem s []) = m_query k s QPrevitem.
Proof. intros k s. unfold run2, s_previtem. cbn [m_query]. crunch. Qed.
Theorem revindex0_source_eq_model : forall k s, as_answer (run2 k s_revindex0 s []) = m_query k s QRevindex0.
Proof. intros k s. unfold run2, s_revindex0. cbn [m_query]. crunch. Qed.
Theorem revindex_source_eq_model : forall k s, as_answer (run2 k s_revindex s []) = m_query k s QRevindex.
Proof. intros k s. unfold run2, s_revindex. cbn [m_query]. crunch. Qed.

Theorem changed_source_eq_model : forall k s v,
  let value := match v with Some c => c | None => match current s with Some x => [x] | None => [] end end in
  as_answer (run2 k s_changed s [("value", LTuple value)]) = m_query k s (QChanged v).
Proof. intros k s v value. subst value. unfold run2, s_changed. cbn [m_query]. crunch; closes. Qed.

Theorem cycle_source_eq_model : forall k s args,
  as_answer (run2 k s_cycle s [("args", LTuple args)]) = m_query k s (QCycle args).
Proof. intros k s args. unfold run2, s_cycle. cbn [m_query]. crunch. Qed.

(* changed() for an arbitrary argument tuple, against the model's own formula *)
Theorem changed_any_tuple : forall k s value,
  as_answer (run2 k s_changed s [("value", LTuple value)]) =
  (if match last_changed s with Some l => list_eqb l value | None => false end then (s, ABool false)
   else (upd s (rem s) (after s) (lenc s) (before s) (current s) (index0 s) (Some value), ABool true)).
Proof. intros k s value. unfold run2, s_changed. crunch; closes. Qed.

(* ---- AsyncLoopContext: the same equations for its overriding members *)
Theorem async_length_source_eq_model : forall k s, as_num (run1 k a_length s []) = m_length k s.
Proof. intros k s. unfold run1, a_length, m_length. destruct k; crunch; closes. Qed.
Theorem async_peek_source_eq_model : forall s, as_peek (run1 Sized a_peek_next s []) = m_peek s.
Proof. intros s. unfold run1, a_peek_next, m_peek. crunch; closes. Qed.
Theorem async_next_source_eq_model : forall s, as_next (run2 Sized a_anext s []) = m_next s.
Proof. intros s. unfold run2, a_anext, m_next. crunch; closes. Qed.
Theorem async_last_source_eq_model : forall k s, as_answer (run2 k a_last s []) = m_query k s QLast.
Proof. intros k s. unfold run2, a_last. cbn [m_query]. crunch. Qed.
Theorem async_nextitem_source_eq_model : forall k s, as_answer (run2 k a_nextitem s []) = m_query k s QNextitem.
Proof. intros k s. unfold run2, a_nextitem. cbn [m_query]. crunch. Qed.
Theorem async_revindex0_source_eq_model : forall k s, as_answer (run2 k a_revindex0 s []) = m_query k s QRevindex0.
Proof. intros k s. unfold run2, a_revindex0. cbn [m_query]. crunch. Qed.
Theorem async_revindex_source_eq_model : forall k s, as_answer (run2 k a_revindex s []) = m_query k s QRevindex.
Proof. intros k s. unfold run2, a_revindex. cbn [m_query]. crunch. Qed.

(* len(loop): the sync class answers with loop.length; the async class cannot await, it answers from the cached
   length or from len(iterable) and raises TypeError for an iterable without len() *)
Theorem len_source_eq_model : forall k s, as_num (run2 k s_len s []) = m_length k s.
Proof. intros k s. unfold run2, s_len. crunch. Qed.
Theorem async_len_source_eq_model : forall k s,
  as_answer (run1 k a_len s []) =
  match lenc s with
  | Some n => (s, ANum n)
  | None => match k with
            | Sized => (upd s (rem s) (after s) (Some (zlen (iterable s))) (before s) (current s) (index0 s) (last_changed s),
                        ANum (zlen (iterable s)))
            | Unsized => (s, ATypeError)
            end
  end.
Proof. intros k s. unfold run1, a_len. destruct k; crunch; closes. Qed.

Print Assumptions length_source_eq_model.
Print Assumptions next_source_eq_model.
Print Assumptions async_peek_source_eq_model.
'''

N_THEOREMS = PROOFS.count("\nTheorem ")


def name(m):
    return m.strip("_")


def render(sync, asyn, src_root):
    defs = ""
    for k, v in sync.items():
        defs += "Definition s_%s : list stmt := %s.\n" % (name(k), v)
    for k, v in asyn.items():
        defs += "Definition a_%s : list stmt := %s.\n" % (name(k), v)
    return HEADER % {"root": src_root} + defs + "\n" + PROOFS
