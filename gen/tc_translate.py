"""T5 translator for jinja2.environment.Environment._load_template: turns the CURRENT source of the method
into a term of the deep embedding Lib/PyTc.v and emits the equation
    interp name g <term> e = Model.Tc.load_template e name
for every environment state e, every name and every truth value g of the `globals` argument, plus structural
facts about create_cache (0 -> None, < 0 -> {}, else LRUCache(size)) and Template.is_up_to_date.
Fail-closed: any construct outside the vocabulary raises Untranslatable."""
import ast
import os


class Untranslatable(Exception):
    pass


def q(s):
    return '"%s"' % s


def is_name(n, name):
    return isinstance(n, ast.Name) and n.id == name


def is_self_attr(n, attr):
    return isinstance(n, ast.Attribute) and is_name(n.value, "self") and n.attr == attr


def strip_doc(body):
    return [s for s in body if not (isinstance(s, ast.Expr) and isinstance(s.value, ast.Constant))]


class T:
    def __init__(self, fn):
        args = [a.arg for a in fn.args.args]
        if len(args) != 3 or args[0] != "self":
            raise Untranslatable("_load_template signature")
        self.name, self.globals = args[1], args[2]
        self.keyvars = set()

    def is_key(self, n):
        if isinstance(n, ast.Name) and n.id in self.keyvars:
            return True
        return (isinstance(n, ast.Tuple) and len(n.elts) == 2 and ast.unparse(n.elts[0]) == "weakref.ref(self.loader)"
                and is_name(n.elts[1], self.name))

    def expr(self, n):
        if isinstance(n, ast.Constant) and n.value is None:
            return "ENone"
        if self.is_key(n) and not isinstance(n, ast.Name):
            return "ECacheKey"
        if isinstance(n, ast.Name):
            return f"(EVar {q(n.id)})"
        if isinstance(n, ast.Call) and not n.keywords:
            f = n.func
            if (isinstance(f, ast.Attribute) and f.attr == "get" and is_self_attr(f.value, "cache") and len(n.args) == 1
                    and self.is_key(n.args[0])):
                return f"(ECacheGet {self.expr(n.args[0])})"
            if (isinstance(f, ast.Attribute) and f.attr == "load" and is_self_attr(f.value, "loader") and len(n.args) == 3
                    and is_name(n.args[0], "self") and is_name(n.args[1], self.name)
                    and ast.unparse(n.args[2]) == f"self.make_globals({self.globals})"):
                return "ELoaderLoad"
        raise Untranslatable("expression " + ast.unparse(n))

    def cond(self, n):
        if is_name(n, self.globals):
            return "CGlobals"
        if is_self_attr(n, "auto_reload"):
            return "CAutoReload"
        if isinstance(n, ast.Attribute) and n.attr == "is_up_to_date" and isinstance(n.value, ast.Name):
            return f"(CUpToDate {q(n.value.id)})"
        if isinstance(n, ast.UnaryOp) and isinstance(n.op, ast.Not):
            return f"(CNot {self.cond(n.operand)})"
        if isinstance(n, ast.BoolOp):
            op = "CAnd" if isinstance(n.op, ast.And) else "COr"
            parts = [self.cond(v) for v in n.values]
            out = parts[0]
            for p in parts[1:]:
                out = f"({op} {out} {p})"
            return out
        if isinstance(n, ast.Compare) and len(n.ops) == 1 and isinstance(n.comparators[0], ast.Constant) \
                and n.comparators[0].value is None:
            a = n.left
            if isinstance(n.ops[0], ast.Is) and is_self_attr(a, "loader"):
                return "CLoaderIsNone"
            if isinstance(n.ops[0], ast.IsNot) and is_self_attr(a, "cache"):
                return "CCacheIsNotNone"
            if isinstance(n.ops[0], ast.IsNot) and isinstance(a, ast.Name):
                return f"(CIsNotNone (EVar {q(a.id)}))"
        raise Untranslatable("condition " + ast.unparse(n))

    def stmts(self, body):
        return "[" + "; ".join(self.stmt(s) for s in strip_doc(body)) + "]"

    def stmt(self, st):
        if isinstance(st, ast.Return) and st.value is not None:
            return f"(SReturn {self.expr(st.value)})"
        if isinstance(st, ast.Raise) and isinstance(st.exc, ast.Call) and is_name(st.exc.func, "TypeError"):
            return "SRaiseTypeError"
        if isinstance(st, ast.If):
            return f"(SIf {self.cond(st.test)} {self.stmts(st.body)} {self.stmts(st.orelse)})"
        if isinstance(st, ast.Assign) and len(st.targets) == 1:
            tg = st.targets[0]
            if isinstance(tg, ast.Name):
                e = self.expr(st.value)
                if e == "ECacheKey":
                    self.keyvars.add(tg.id)
                elif tg.id in self.keyvars:
                    raise Untranslatable("cache key variable reassigned")
                return f"(SAssign {q(tg.id)} {e})"
            if isinstance(tg, ast.Subscript) and is_self_attr(tg.value, "cache") and self.is_key(tg.slice):
                return f"(SCacheSet {self.expr(tg.slice)} {self.expr(st.value)})"
        # <var>._module = None : the cached default module is dropped (no counterpart in M, like the globals update)
        if (isinstance(st, ast.Assign) and len(st.targets) == 1 and isinstance(st.targets[0], ast.Attribute)
                and st.targets[0].attr == "_module" and isinstance(st.targets[0].value, ast.Name)
                and isinstance(st.value, ast.Constant) and st.value.value is None):
            return f"(SGlobalsUpdate {q(st.targets[0].value.id)})"
        if isinstance(st, ast.Expr) and isinstance(st.value, ast.Call):
            c = st.value
            if (ast.unparse(c.func).endswith(".globals.update") and isinstance(c.func.value.value, ast.Name)
                    and len(c.args) == 1 and is_name(c.args[0], self.globals)):
                return f"(SGlobalsUpdate {q(c.func.value.value.id)})"
        raise Untranslatable("statement " + ast.unparse(st)[:80])


def check_create_cache(tree):
    fn = [n for n in tree.body if isinstance(n, ast.FunctionDef) and n.name == "create_cache"]
    if len(fn) != 1:
        raise Untranslatable("create_cache not found")
    got = [ast.unparse(s) for s in strip_doc(fn[0].body)]
    want = ["if size == 0:\n    return None", "if size < 0:\n    return {}", "return LRUCache(size)"]
    if got != want:
        raise Untranslatable("create_cache is no longer `0 -> None, < 0 -> {}, else LRUCache(size)`: " + " / ".join(got))


def check_is_up_to_date(tree):
    cls = [n for n in tree.body if isinstance(n, ast.ClassDef) and n.name == "Template"][0]
    fn = [n for n in cls.body if isinstance(n, ast.FunctionDef) and n.name == "is_up_to_date"]
    if len(fn) != 1:
        raise Untranslatable("Template.is_up_to_date not found")
    got = [ast.unparse(s) for s in strip_doc(fn[0].body)]
    if got != ["if self._uptodate is None:\n    return True", "return self._uptodate()"]:
        raise Untranslatable("Template.is_up_to_date changed: " + " / ".join(got))


def translate(src_root):
    tree = ast.parse(open(os.path.join(src_root, "jinja2", "environment.py")).read())
    check_create_cache(tree)
    check_is_up_to_date(tree)
    env = [n for n in tree.body if isinstance(n, ast.ClassDef) and n.name == "Environment"]
    if len(env) != 1:
        raise Untranslatable("class Environment not found")
    fn = [n for n in env[0].body if isinstance(n, ast.FunctionDef) and n.name == "_load_template"]
    if len(fn) != 1:
        raise Untranslatable("Environment._load_template not found")
    t = T(fn[0])
    body = t.stmts(fn[0].body)
    # the public entry points must still funnel into _load_template
    for name, needle in (("get_template", "return self._load_template(name, globals)"),
                         ("select_template", "return self._load_template(name, globals)")):
        f = [n for n in env[0].body if isinstance(n, ast.FunctionDef) and n.name == name]
        if len(f) != 1 or needle not in ast.unparse(f[0]):
            raise Untranslatable(f"{name} no longer ends in {needle}")
    return body


COQ = r'''(* regenerated from %(root)s/jinja2/environment.py by gen/tc_translate.py — do not edit *)
From Coq Require Import List NArith Bool String.
Import ListNotations.
From JV Require Import Model.LRU Model.Tc Lib.PyTc.
Open Scope N_scope. Open Scope string_scope.

Definition gen_load_template : list stmt := %(body)s.

Ltac names := cbn [execs exec eval evalc venv_get as_tid String.eqb Ascii.eqb Bool.eqb fst snd negb andb orb
                   cache_get cache_set set_cache reload
                   auto_reload upt cache loader heap next t_ver t_name] in *.
Ltac crunch :=
  repeat (names; unfold set_cache, reload, is_up_to_date in *; names; try rewrite !N.eqb_refl;
          match goal with
          | |- context [match ?x with _ => _ end] =>
              match x with
              | context [match _ with _ => _ end] => fail 1
              | _ => destruct x eqn:?
              end
          end);
  names; unfold set_cache, reload, is_up_to_date in *; names; try rewrite !N.eqb_refl; names; try reflexivity; try congruence.

Theorem load_template_source_eq_model : forall n g e,
  interp n g gen_load_template e = load_template e n.
Proof.
  intros n g [ar u c l h nx]. unfold gen_load_template, interp, load_template, is_up_to_date.
  destruct c as [|d|s]; crunch.
Qed.
Print Assumptions load_template_source_eq_model.
'''


def emit(src_root):
    return COQ % {"root": src_root, "body": translate(src_root)}


if __name__ == "__main__":
    import sys
    print(emit(sys.argv[1] if len(sys.argv) > 1 else "/repo/src"))
