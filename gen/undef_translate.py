"""C21 translator (T5 style): turns the CURRENT source of every method of Undefined,
ChainableUndefined, DebugUndefined, StrictUndefined and of the class inside make_logging_undefined
into terms of Lib/UndefPy.v (fail-closed) and emits, per method definition, the equation
    interpreted body = kind_sem <the kind gen/undef_tables.py put into the class table>
for every caller context, plus  interpreted _undefined_message = message  and
interpreted DebugUndefined.__str__ = debug_str  for every origin.  (_log_message and the
logger.error call are pinned by shape; __init__ by gen/undef_tables.py.)"""
import ast
import os
import sys

sys.path.insert(0, os.path.dirname(os.path.abspath(__file__)))
import undef_tables as ut  # noqa: E402


class Untranslatable(Exception):
    pass


DUNDER_TEST = "name[:2] == '__' and name[-2:] == '__'"


def cps(s):
    return "[" + "; ".join(str(ord(c)) for c in s) + "]"


def uexpr(n, params):
    if isinstance(n, ast.Name) and n.id == "self":
        return "UESelf"
    if isinstance(n, ast.Constant):
        return f"(UEConst {ut._const_kind(n.value)})"
    if isinstance(n, ast.UnaryOp) and isinstance(n.op, ast.Not):
        return f"(UENot {uexpr(n.operand, params)})"
    s = ast.unparse(n)
    if s == "type(self) is type(other)":
        return "UETypeIsType"
    if s == "id(type(self))":
        return "UEIdType"
    if s == "str(self)":
        return "UEStrSelf"
    if s == "str(escape(str(self)))":
        return "UEEscStrSelf"
    if isinstance(n, ast.Call) and isinstance(n.func, ast.Attribute) and n.func.attr in ut.NAME_ID:
        m = ut.COQ_NAME[n.func.attr]
        args = [ast.unparse(a) for a in n.args] + ["**" + ast.unparse(k.value) for k in n.keywords if k.arg is None]
        if any(k.arg is not None for k in n.keywords):
            raise Untranslatable("keyword call " + s)
        if args == []:
            fwd = "false"
        elif args == params and params:
            fwd = "true"
        elif args == ["*args", "**kwargs"]:
            fwd = "false"          # _fail_with_undefined_error ignores its arguments
        else:
            raise Untranslatable("call arguments " + s)
        tgt = ast.unparse(n.func.value)
        if tgt == "self":
            return f"(UECallSelf {m} {fwd})"
        if tgt == "super()":
            return f"(UESuperCall {m} {fwd})"
    raise Untranslatable("expression " + s)


def ustmts(body, fn, params):
    out = []
    for st in body:
        if isinstance(st, ast.Expr) and isinstance(st.value, ast.Constant) and isinstance(st.value.value, str):
            continue
        out.append(ustmt(st, fn, params))
    return "[" + "; ".join(out) + "]"


def ustmt(st, fn, params):
    s = ast.unparse(st)
    if s == "raise self._undefined_exception(self._undefined_message)":
        return "USRaiseUndefined"
    if s == "raise AttributeError(name)":
        return "USRaiseAttributeError"
    if isinstance(st, ast.If) and not st.orelse and ast.unparse(st.test) == DUNDER_TEST and params == ["name"]:
        return f"(USIfDunder {ustmts(st.body, fn, params)})"
    if isinstance(st, ast.Return) and st.value is not None:
        return f"(USReturn {uexpr(st.value, params)})"
    if s == "_log_message(self)":
        return "USLogWarn"
    if s == "yield from ()" and isinstance(fn, ast.FunctionDef):
        return "USYieldFromEmpty"
    if s.replace("\n", " / ") == "for _ in (): /     yield" and isinstance(fn, ast.AsyncFunctionDef):
        return "USAsyncEmpty"
    if isinstance(st, ast.Try) and not st.orelse and not st.finalbody and len(st.handlers) == 1:
        h = st.handlers[0]
        if (h.type is not None and ast.unparse(h.type) == "self._undefined_exception" and h.name == "e"
                and [ast.unparse(x) for x in h.body] == ["logger.error('Template variable error: %s', e)", "raise e"]):
            return f"(USTryLogErr {ustmts(st.body, fn, params)})"
    if isinstance(st, ast.Expr) and isinstance(st.value, ast.Call):
        return f"(USExpr {uexpr(st.value, params)})"
    raise Untranslatable(f"{fn.name}: statement {s[:90]}")


# ---- string programs
def spart(n):
    if isinstance(n, ast.Constant) and isinstance(n.value, str):
        return f"SLit {cps(n.value)}"
    if isinstance(n, ast.FormattedValue):
        if n.format_spec is not None:
            raise Untranslatable("format spec")
        v, conv = ast.unparse(n.value), n.conversion
        table = {("self._undefined_hint", -1): "SHint", ("self._undefined_name", 114): "SNameRepr",
                 ("self._undefined_name", -1): "SNameStr", ("object_type_repr(self._undefined_obj)", -1): "SObjType",
                 ("object_type_repr(self._undefined_obj)", 114): "SObjTypeRepr", ("message", -1): "SLocal"}
        if (v, conv) in table:
            return table[(v, conv)]
    raise Untranslatable("string part " + ast.unparse(n))


def stextexpr(n):
    if isinstance(n, ast.JoinedStr):
        return "[" + "; ".join(spart(v) for v in n.values) + "]"
    s = ast.unparse(n)
    if s == "self._undefined_hint":
        return "[SHint]"
    if s == "self._undefined_name":
        return "[SNameStr]"
    if isinstance(n, ast.Constant) and isinstance(n.value, str):
        return f"[SLit {cps(n.value)}]"
    raise Untranslatable("string expression " + s)


def scond(n):
    s = ast.unparse(n)
    table = {"self._undefined_hint": "SCHint", "self._undefined_obj is missing": "SCObjMissing",
             "not isinstance(self._undefined_name, str)": "SCNameNotStr"}
    if s in table:
        return table[s]
    raise Untranslatable("condition " + s)


def sstmts(body):
    out = []
    for st in body:
        if isinstance(st, ast.Expr) and isinstance(st.value, ast.Constant) and isinstance(st.value.value, str):
            continue
        if isinstance(st, ast.If):
            out.append(f"(SSIf {scond(st.test)} {sstmts(st.body)} {sstmts(st.orelse)})")
        elif isinstance(st, ast.Return) and st.value is not None:
            out.append(f"(SSReturn {stextexpr(st.value)})")
        elif isinstance(st, ast.Assign) and len(st.targets) == 1 and ast.unparse(st.targets[0]) == "message":
            out.append(f"(SSAssign {stextexpr(st.value)})")
        else:
            raise Untranslatable("string program statement " + ast.unparse(st)[:80])
    return "[" + "; ".join(out) + "]"


def translate(src_root):
    tree = ast.parse(open(os.path.join(src_root, "jinja2", "runtime.py")).read())
    try:
        ut.translate(src_root)          # the table translator's own checks (shapes, _log_message, aliases)
    except ut.TranslateError as e:
        raise Untranslatable(f"class tables: {e}")
    classes = []
    for n in tree.body:
        if isinstance(n, ast.ClassDef) and n.name in ut.BASES:
            classes.append((n, False))
        if isinstance(n, ast.FunctionDef) and n.name == "make_logging_undefined":
            classes += [(m, True) for m in n.body if isinstance(m, ast.ClassDef)]
    bodies, programs = [], {}
    for cdef, in_logging in classes:
        for fn in cdef.body:
            if not isinstance(fn, (ast.FunctionDef, ast.AsyncFunctionDef)):
                continue
            kind = ut.classify(fn, in_logging)
            params = [a.arg for a in fn.args.args[1:]]
            ident = f"{cdef.name}_{fn.name.strip('_')}"
            if kind in ("KInit", "KOther"):
                continue
            if kind == "KMessage":
                programs["message"] = sstmts(fn.body)
                continue
            if kind == "KDebugStr":
                programs["debug"] = sstmts(fn.body)
                bodies.append((ident, "[USReturn UEDebugText]", kind))
                continue
            bodies.append((ident, ustmts(fn.body, fn, params), kind))
    if set(programs) != {"message", "debug"}:
        raise Untranslatable(f"string programs found: {sorted(programs)}")
    return bodies, programs


HEAD = r'''(* regenerated from %(root)s/jinja2/runtime.py by gen/undef_translate.py -- do not edit *)
From Coq Require Import List NArith Bool.
Import ListNotations.
From JV Require Import Model.Undef Lib.UndefPy.
Open Scope N_scope.

Section Eq.
  Variable c : cname.
  Variable p : party.
  Variable vc sup : mname -> arg -> run.
  Ltac crunch :=
    cbn [uexecs uexec ueval kind_sem app];
    repeat (match goal with
            | |- context [vc ?m ?x] => destruct (vc m x) as [[[]| | | |] ?]
            | |- context [sup ?m ?x] => destruct (sup m x) as [[[]| | | |] ?]
            | a : arg |- context [match ?a with _ => _ end] => destruct a as [|?|[|]]
            end; cbn [uexecs uexec ueval kind_sem app]);
    rewrite ?app_nil_r; try reflexivity.
'''

BODY = r'''
  Definition body_%(id)s : list ustmt := %(term)s.
  Theorem %(id)s_source_eq_model : forall a, urun c p a vc sup body_%(id)s = kind_sem c p a vc sup %(kind)s.
  Proof. intro a. unfold urun, body_%(id)s. crunch. Qed.
'''

TAIL = r'''End Eq.

Definition message_src : list sstmt := %(message)s.
Definition debug_src : list sstmt := %(debug)s.

Ltac strings := cbv [s_is_undefined s_has_no_element s_has_no_attribute s_open s_close s_printed s_nosuch repr_simple];
  cbn [app]; repeat rewrite <- app_assoc; cbn [app]; rewrite ?app_nil_r; try reflexivity.

Theorem message_source_eq_model : forall o, srun o message_src = message o.
Proof.
  intros [h ob n]. unfold srun, message_src, message, eff_hint. cbn [hint obj name].
  destruct h as [[|x r]|]; destruct ob as [t|]; destruct n as [s|s];
    cbn [sexecs sexec scond_val eff_hint hint obj name stext flat_map spart_text repr_name str_name]; strings.
Qed.

Theorem debug_str_source_eq_model : forall o, srun o debug_src = debug_str o.
Proof.
  intros [h ob n]. unfold srun, debug_src, debug_str, eff_hint. cbn [hint obj name].
  destruct h as [[|x r]|]; destruct ob as [t|]; destruct n as [s|s];
    cbn [sexecs sexec scond_val eff_hint hint obj name stext flat_map spart_text repr_name str_name]; strings.
Qed.

Print Assumptions message_source_eq_model.
Print Assumptions debug_str_source_eq_model.
'''


def emit(src_root):
    bodies, programs = translate(src_root)
    out = HEAD % {"root": src_root}
    for ident, term, kind in bodies:
        out += BODY % {"id": ident, "term": term, "kind": kind}
    out += TAIL % programs
    return out, len(bodies) + 2


if __name__ == "__main__":
    print(emit(sys.argv[1] if len(sys.argv) > 1 else "/repo/src")[0])
