"""C14 translator (T5 style): turns the CURRENT source of the TOKEN_STRING / TOKEN_INTEGER /
TOKEN_FLOAT branches of Lexer.wrap into terms of the deep embedding Lib/LitPy.v and emits the
equations   interpreted branch = Model.Lit conversion   for every token text (and every
newline_sequence, digit limit and decimal->double function).  Also pins what the branches rely
on: Lexer._normalize_newlines = newline_re.sub(self.newline_sequence, value), the newline_re
pattern, `literal_eval` being ast.literal_eval, the token constants, and the rule order of the tag
rules (float_re before integer_re).  Fail-closed: anything outside the vocabulary raises
Untranslatable."""
import ast
import os


class Untranslatable(Exception):
    pass


HANDLERS = {"Exception": "HException", "ValueError": "HValueError", "SyntaxError": "HSyntaxError",
            "UnicodeError": "HUnicodeError", "UnicodeDecodeError": "HUnicodeError"}
CODECS_ENC = {("ascii", "backslashreplace"): (0, 0)}
CODECS_DEC = {"unicode-escape": 0, "unicode_escape": 0}


def const_str(n):
    return n.value if isinstance(n, ast.Constant) and isinstance(n.value, str) else None


def pexpr(n):
    if isinstance(n, ast.Name) and n.id == "value_str":
        return "PValueStr"
    if isinstance(n, ast.Subscript) and isinstance(n.slice, ast.Slice):
        s = n.slice
        if (s.step is None and isinstance(s.lower, ast.Constant) and s.lower.value == 1 and isinstance(s.upper, ast.UnaryOp)
                and isinstance(s.upper.op, ast.USub) and isinstance(s.upper.operand, ast.Constant) and s.upper.operand.value == 1):
            return f"(PInner {pexpr(n.value)})"
        raise Untranslatable("slice " + ast.unparse(n))
    if isinstance(n, ast.Call) and not n.keywords:
        f = n.func
        if isinstance(f, ast.Attribute):
            if (f.attr == "_normalize_newlines" and isinstance(f.value, ast.Name) and f.value.id == "self" and len(n.args) == 1):
                return f"(PNormalize {pexpr(n.args[0])})"
            if (f.attr == "sub" and isinstance(f.value, ast.Name) and f.value.id == "_backslash_non_ascii_re" and len(n.args) == 2
                    and const_str(n.args[0]) == r"\1\\\\"):
                return f"(PProtect {pexpr(n.args[1])})"
            if (f.attr == "sub" and isinstance(f.value, ast.Name) and f.value.id == "_line_continuation_re" and len(n.args) == 2
                    and const_str(n.args[0]) == r"\1"):
                return f"(PUncontinue {pexpr(n.args[1])})"
            if f.attr == "encode" and len(n.args) == 2 and all(const_str(a) is not None for a in n.args):
                key = (const_str(n.args[0]), const_str(n.args[1]))
                c, e = CODECS_ENC.get(key, (1 + abs(hash(key[0])) % 1000, 1 + abs(hash(key[1])) % 1000))
                return f"(PEncode {pexpr(f.value)} {c} {e})"
            if f.attr == "decode" and len(n.args) == 1 and const_str(n.args[0]) is not None:
                c = CODECS_DEC.get(const_str(n.args[0]), 1 + abs(hash(const_str(n.args[0]))) % 1000)
                return f"(PDecode {pexpr(f.value)} {c})"
            if (f.attr == "replace" and len(n.args) == 2 and const_str(n.args[0]) is not None and len(const_str(n.args[0])) == 1
                    and const_str(n.args[1]) == ""):
                return f"(PRemoveChar {pexpr(f.value)} {ord(const_str(n.args[0]))})"
        if isinstance(f, ast.Name) and f.id == "int" and len(n.args) == 2 and isinstance(n.args[1], ast.Constant) \
                and isinstance(n.args[1].value, int) and n.args[1].value >= 0:
            return f"(PInt {pexpr(n.args[0])} {n.args[1].value})"
        if isinstance(f, ast.Name) and f.id == "literal_eval" and len(n.args) == 1:
            return f"(PLiteralEval {pexpr(n.args[0])})"
    raise Untranslatable("expression " + ast.unparse(n)[:100])


def branch(body, what):
    """body of one elif: exactly  try: value = <expr>  except <classes> as e: ...; raise TemplateSyntaxError(...) from e"""
    body = [s for s in body if not (isinstance(s, ast.Expr) and isinstance(s.value, ast.Constant))]
    if not (len(body) == 1 and isinstance(body[0], ast.Try)):
        raise Untranslatable(f"{what}: the branch is not a single try statement")
    t = body[0]
    if t.orelse or t.finalbody or len(t.handlers) != 1:
        raise Untranslatable(f"{what}: try shape")
    if not (len(t.body) == 1 and isinstance(t.body[0], ast.Assign) and len(t.body[0].targets) == 1
            and isinstance(t.body[0].targets[0], ast.Name) and t.body[0].targets[0].id == "value"):
        raise Untranslatable(f"{what}: the try body is not `value = ...`")
    h = t.handlers[0]
    if h.type is None:
        hs = ["HException"]          # bare except also catches Exception subclasses
    else:
        names = h.type.elts if isinstance(h.type, ast.Tuple) else [h.type]
        hs = []
        for nm in names:
            if not isinstance(nm, ast.Name):
                raise Untranslatable(f"{what}: handler class {ast.unparse(nm)}")
            hs.append(HANDLERS.get(nm.id, "HOther"))
    raises = [s for s in h.body if isinstance(s, ast.Raise)]
    if not (h.body and isinstance(h.body[-1], ast.Raise) and len(raises) == 1 and isinstance(raises[0].exc, ast.Call)
            and isinstance(raises[0].exc.func, ast.Name) and raises[0].exc.func.id == "TemplateSyntaxError"
            and [ast.unparse(a) for a in raises[0].exc.args[1:]] == ["lineno", "name", "filename"]):
        raise Untranslatable(f"{what}: the handler does not end in raise TemplateSyntaxError(msg, lineno, name, filename)")
    for s in h.body[:-1]:
        if not isinstance(s, ast.Assign):
            raise Untranslatable(f"{what}: handler statement {ast.unparse(s)[:60]}")
    return pexpr(t.body[0].value), "[" + "; ".join(hs) + "]"


FLAG_NAMES = {"IGNORECASE": "I", "I": "I", "VERBOSE": "X", "X": "X", "S": "S", "DOTALL": "S", "M": "M", "MULTILINE": "M"}


def regex_shape(call):
    """normal form of a module-level  re.compile(<constant pattern>, <flags>)  : the pattern is parsed with the
    re module's own parser (so layout and comments of a VERBOSE pattern do not matter), capturing and
    non-capturing groups are not distinguished, flags are a sorted letter string.  Anything that is not a constant
    pattern (an f-string assembled from pieces, a variable) is refused."""
    import re
    import warnings
    try:
        import re._parser as sre_parse
    except ImportError:  # python < 3.11
        import sre_parse
    if not (isinstance(call, ast.Call) and ast.unparse(call.func) == "re.compile" and 1 <= len(call.args) <= 2 and not call.keywords):
        raise Untranslatable("not a re.compile(...) call: " + ast.unparse(call)[:80])
    pat = call.args[0]
    if not (isinstance(pat, ast.Constant) and isinstance(pat.value, str)):
        raise Untranslatable("regular expression pattern is not a constant string: " + ast.unparse(pat)[:80])
    letters = set()
    if len(call.args) == 2:
        for n in ast.walk(call.args[1]):
            if isinstance(n, ast.Attribute):
                if not (isinstance(n.value, ast.Name) and n.value.id == "re" and n.attr in FLAG_NAMES):
                    raise Untranslatable("regex flag " + ast.unparse(n))
                letters.add(FLAG_NAMES[n.attr])
            elif not isinstance(n, (ast.BinOp, ast.BitOr, ast.Name, ast.Load)):
                raise Untranslatable("regex flags " + ast.unparse(call.args[1]))
    flags = 0
    for ch in letters:
        flags |= getattr(re, ch)
    with warnings.catch_warnings():
        warnings.simplefilter("ignore")
        tree = sre_parse.parse(pat.value, flags)

    def norm(x):
        if isinstance(x, sre_parse.SubPattern):
            return [norm(i) for i in x.data]
        if isinstance(x, tuple) and len(x) == 2 and str(x[0]) == "SUBPATTERN":
            return ["GROUP", norm(x[1][3])]
        if isinstance(x, (tuple, list)):
            return [norm(i) for i in x]
        return str(x)

    return "".join(sorted(letters)) + " " + repr(norm(tree))


def check_regex_shapes(top):
    """integer_re, float_re, string_re as regular-expression TERMS must be the ones the model's scanners were
    written (and proved) against"""
    import json
    want = json.load(open(os.path.join(os.path.dirname(os.path.abspath(__file__)), "lit_regex_shapes.json")))
    got = {}
    for name in want:
        if name not in top:
            raise Untranslatable(name + " is missing")
        got[name] = regex_shape(top[name])
        if got[name] != want[name]:
            raise Untranslatable(f"{name} is no longer the regular expression the model was validated against:\n  now      {got[name][:400]}\n  expected {want[name][:400]}")
    return got


def translate(src_root):
    tree = ast.parse(open(os.path.join(src_root, "jinja2", "lexer.py")).read())
    top = {}
    for n in tree.body:
        if isinstance(n, ast.Assign) and len(n.targets) == 1 and isinstance(n.targets[0], ast.Name):
            top[n.targets[0].id] = n.value
    if os.environ.get("LIT_REGEX_SHAPES") != "dump":
        check_regex_shapes(top)
    for const, text in (("TOKEN_STRING", "string"), ("TOKEN_INTEGER", "integer"), ("TOKEN_FLOAT", "float")):
        if const not in top or ast.unparse(top[const]) != f"intern({text!r})":
            raise Untranslatable(f"{const} is not intern({text!r})")
    if "newline_re" not in top or ast.unparse(top["newline_re"]) != "re.compile('(\\\\r\\\\n|\\\\r|\\\\n)')":
        raise Untranslatable("newline_re pattern: " + (ast.unparse(top["newline_re"]) if "newline_re" in top else "missing"))
    if "_backslash_non_ascii_re" in top:
        v = top["_backslash_non_ascii_re"]
        ok = (isinstance(v, ast.Call) and ast.unparse(v.func) == "re.compile" and len(v.args) == 1 and not v.keywords
              and const_str(v.args[0]) == r"(?<!\\)((?:\\\\)*)\\(?=[^\x00-\x7f])")
        if not ok:
            raise Untranslatable("_backslash_non_ascii_re pattern: " + ast.unparse(v))
    if "_line_continuation_re" in top:
        v = top["_line_continuation_re"]
        ok = (isinstance(v, ast.Call) and ast.unparse(v.func) == "re.compile" and len(v.args) == 1 and not v.keywords
              and const_str(v.args[0]) == r"(?<!\\)((?:\\\\)*)\\" + "\\n")
        if not ok:
            raise Untranslatable("_line_continuation_re pattern: " + ast.unparse(v))
    imports = [ast.unparse(n) for n in tree.body if isinstance(n, ast.ImportFrom) and any(a.name == "literal_eval" for a in n.names)]
    if imports != ["from ast import literal_eval"]:
        raise Untranslatable(f"literal_eval is imported as {imports}")
    lexer = [n for n in tree.body if isinstance(n, ast.ClassDef) and n.name == "Lexer"]
    if len(lexer) != 1:
        raise Untranslatable("class Lexer not found")
    funcs = {n.name: n for n in lexer[0].body if isinstance(n, ast.FunctionDef)}
    nn = [s for s in funcs["_normalize_newlines"].body if not (isinstance(s, ast.Expr) and isinstance(s.value, ast.Constant))]
    if [ast.unparse(s) for s in nn] != ["return newline_re.sub(self.newline_sequence, value)"]:
        raise Untranslatable("_normalize_newlines body")
    # rule order of the tag rules
    init_src = ast.unparse(funcs["__init__"])
    order = [init_src.find(f"_Rule({r}, ") for r in ("float_re", "integer_re", "name_re", "string_re", "operator_re")]
    if -1 in order or order != sorted(order):
        raise Untranslatable("tag rule order is no longer float, integer, name, string, operator")
    # the elif chain of wrap
    found = {}
    for node in ast.walk(funcs["wrap"]):
        if isinstance(node, ast.If) and isinstance(node.test, ast.Compare) and len(node.test.ops) == 1 \
                and isinstance(node.test.ops[0], ast.Eq) and isinstance(node.test.left, ast.Name) and node.test.left.id == "token" \
                and isinstance(node.test.comparators[0], ast.Name):
            c = node.test.comparators[0].id
            if c in ("TOKEN_STRING", "TOKEN_INTEGER", "TOKEN_FLOAT"):
                if c in found:
                    raise Untranslatable(f"two branches test {c}")
                found[c] = node.body
    if set(found) != {"TOKEN_STRING", "TOKEN_INTEGER", "TOKEN_FLOAT"}:
        raise Untranslatable(f"branches found: {sorted(found)}")
    out = {}
    for c, key in (("TOKEN_STRING", "string"), ("TOKEN_INTEGER", "int"), ("TOKEN_FLOAT", "float")):
        e, hs = branch(found[c], c)
        out[key + "_e"], out[key + "_h"] = e, hs
    return out


COQ = r'''(* regenerated from %(root)s/jinja2/lexer.py by gen/lit_translate.py -- do not edit *)
From Coq Require Import List NArith ZArith Bool.
Import ListNotations.
From JV Require Import Model.Lit Lib.LitPy.
Open Scope N_scope.

Definition string_src : pexpr := %(string_e)s.
Definition string_handlers : list hclass := %(string_h)s.
Definition int_src : pexpr := %(int_e)s.
Definition int_handlers : list hclass := %(int_h)s.
Definition float_src : pexpr := %(float_e)s.
Definition float_handlers : list hclass := %(float_h)s.

Section Eq.
  Variable F : Type.
  Variable dec2float : str -> F.
  Variable nl : str.
  Variable limit : N.

  Theorem string_source_eq_model : forall tok, lf_only tok ->
    run_branch F dec2float nl limit string_src string_handlers tok = model_string F nl tok.
  Proof.
    intros tok Hlf. unfold run_branch, model_string, string_src, string_handlers, convert. rewrite Hlf. cbn [eval N.eqb andb].
    destruct (unicode_escape (bsr (protect (normalize nl (uncontinue (removelast (tl tok))))))); reflexivity.
  Qed.

  Theorem int_source_eq_model : forall tok,
    run_branch F dec2float nl limit int_src int_handlers tok = model_int F limit tok.
  Proof.
    intro tok. unfold run_branch, model_int, int_src, int_handlers, jinja_int, remove_us, US. cbn [eval N.eqb].
    destruct (int0 limit (filter (fun x : N => negb (x =? 95)) tok)); reflexivity.
  Qed.

  Theorem float_source_eq_model : forall tok,
    run_branch F dec2float nl limit float_src float_handlers tok = model_float F dec2float tok.
  Proof. intro tok. reflexivity. Qed.
End Eq.

Print Assumptions string_source_eq_model.
Print Assumptions int_source_eq_model.
Print Assumptions float_source_eq_model.
'''


def emit(src_root):
    d = translate(src_root)
    d["root"] = src_root
    return COQ % d


def dump_shapes(src_root):
    tree = ast.parse(open(os.path.join(src_root, "jinja2", "lexer.py")).read())
    top = {n.targets[0].id: n.value for n in tree.body if isinstance(n, ast.Assign) and len(n.targets) == 1 and isinstance(n.targets[0], ast.Name)}
    return {name: regex_shape(top[name]) for name in ("integer_re", "float_re", "string_re")}


if __name__ == "__main__":
    import sys
    print(emit(sys.argv[1] if len(sys.argv) > 1 else "/repo/src"))
