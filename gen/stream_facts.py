"""Translator (facts) for C10: the vocabulary of TemplateStream's methods in the CURRENT source —
every call target, comparison operator, constant and attribute written to — as a Coq table.  The
obligation in the generated file says the vocabulary is the one the model Model/Stream.v was written
against (a buffer flushed by piece COUNT only: no len(), no byte thresholds, no extra state).
Fail-closed: a method that is missing, or syntax outside the table's kinds, raises Untranslatable."""
import ast
import os

METHODS = ["__init__", "dump", "disable_buffering", "_buffered_generator", "enable_buffering", "__iter__", "__next__"]


class Untranslatable(Exception):
    pass


def facts(src_root):
    tree = ast.parse(open(os.path.join(src_root, "jinja2", "environment.py")).read())
    cls = [n for n in tree.body if isinstance(n, ast.ClassDef) and n.name == "TemplateStream"]
    if len(cls) != 1:
        raise Untranslatable("class TemplateStream not found")
    found = {}
    for n in cls[0].body:
        if isinstance(n, (ast.FunctionDef, ast.AsyncFunctionDef)):
            found[n.name] = n
        elif isinstance(n, ast.Expr) and isinstance(n.value, ast.Constant):
            continue        # docstring
        else:
            raise Untranslatable("class-level statement: " + ast.unparse(n)[:60])
    for m in METHODS:
        if m not in found:
            raise Untranslatable("method missing: " + m)
    out = []
    for name, fn in sorted(found.items()):
        fn = _alpha(fn)
        for n in ast.walk(fn):
            if isinstance(n, ast.Call):
                out.append((name, "call", ast.unparse(n.func)))
            elif isinstance(n, ast.Compare):
                for op in n.ops:
                    out.append((name, "cmp", type(op).__name__ + " " + ast.unparse(n.left) + " " + ast.unparse(n.comparators[0])))
            elif isinstance(n, ast.Constant) and not isinstance(n.value, str) and n.value is not None and n.value is not Ellipsis:
                out.append((name, "const", repr(n.value)))
            elif isinstance(n, ast.Constant) and isinstance(n.value, str) and name == "dump" \
                    and n is not getattr(fn.body[0], "value", None):
                out.append((name, "str", n.value))
            elif isinstance(n, (ast.Assign, ast.AugAssign, ast.AnnAssign)):
                tg = n.targets if isinstance(n, ast.Assign) else [n.target]
                for t in tg:
                    out.append((name, "store", ast.unparse(t) + (" " + type(n.op).__name__ if isinstance(n, ast.AugAssign) else "")))
            elif isinstance(n, (ast.While, ast.If)):
                out.append((name, type(n).__name__.lower(), ast.unparse(n.test)))
            elif isinstance(n, ast.For):
                out.append((name, "for", ast.unparse(n.target) + " in " + ast.unparse(n.iter)))
            elif isinstance(n, ast.ExceptHandler):
                out.append((name, "except", ast.unparse(n.type) if n.type is not None else "*"))
            elif isinstance(n, (ast.Yield, ast.YieldFrom)):
                out.append((name, "yield", ast.unparse(n.value) if n.value is not None else ""))
            elif isinstance(n, ast.Return):
                out.append((name, "return", ast.unparse(n.value) if n.value is not None else ""))
            elif isinstance(n, ast.Delete):
                out.append((name, "del", ", ".join(ast.unparse(t) for t in n.targets)))
            elif isinstance(n, ast.Raise):
                out.append((name, "raise", ast.unparse(n.exc.func if isinstance(n.exc, ast.Call) else n.exc) if n.exc else ""))
    return out


def _alpha(fn):
    """rename parameters and local variables to v0, v1, ... in order of first occurrence, drop annotations:
    renaming a local is not a change of vocabulary"""
    fn = ast.parse(ast.unparse(fn)).body[0]
    local = [a.arg for a in fn.args.args + fn.args.kwonlyargs if a.arg != "self"]
    for n in ast.walk(fn):
        if isinstance(n, ast.Name) and isinstance(n.ctx, ast.Store) and n.id not in local:
            local.append(n.id)
        if isinstance(n, (ast.FunctionDef,)) and n is not fn:
            local.append(n.name)
    order = []
    for n in ast.walk(fn):
        nm = n.arg if isinstance(n, ast.arg) else n.id if isinstance(n, ast.Name) else n.name if isinstance(n, ast.FunctionDef) and n is not fn else None
        if nm in local and nm not in order:
            order.append(nm)
    ren = {nm: "v%d" % i for i, nm in enumerate(order)}
    for n in ast.walk(fn):
        if isinstance(n, ast.arg):
            n.arg = ren.get(n.arg, n.arg); n.annotation = None
        elif isinstance(n, ast.Name):
            n.id = ren.get(n.id, n.id)
        elif isinstance(n, ast.FunctionDef):
            if n is not fn:
                n.name = ren.get(n.name, n.name)
            n.returns = None
        elif isinstance(n, ast.AnnAssign):
            n.annotation = ast.Constant(value=None)
    return fn


def q(s):
    return '"' + s.replace('"', '""') + '"'


def emit(src_root):
    fs = facts(src_root)
    lines = ["(* regenerated from %s/jinja2/environment.py by gen/stream_facts.py — do not edit *)" % src_root,
             "From Coq Require Import List String Bool.", "Import ListNotations.", "Open Scope string_scope.",
             "From JV Require Import Model.StreamFacts.", "",
             "Definition stream_facts : list (string * string * string) := ["]
    lines.append(";\n".join("  (%s, %s, %s)" % (q(a), q(b), q(c)) for a, b, c in fs))
    lines.append("].")
    lines.append("")
    lines.append("(* obligation: the methods of TemplateStream use exactly the vocabulary the model was written against *)")
    lines.append("Theorem stream_vocabulary : forallb (fun f => existsb (fact_eqb f) expected_facts) stream_facts = true /\\")
    lines.append("  forallb (fun f => existsb (fact_eqb f) stream_facts) expected_facts = true.")
    lines.append("Proof. split; vm_compute; reflexivity. Qed.")
    lines.append("Print Assumptions stream_vocabulary.")
    return "\n".join(lines) + "\n", fs


if __name__ == "__main__":
    import sys
    txt, fs = emit(sys.argv[1] if len(sys.argv) > 1 else "/repo/src")
    if len(sys.argv) > 2:
        print(";\n".join("  (%s, %s, %s)" % (q(a), q(b), q(c)) for a, b, c in sorted(set(fs))))
    else:
        print(txt)
