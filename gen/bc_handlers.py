#!/usr/bin/env python3
"""T2 for C27: regenerate the handler table of jinja2.bccache.Bucket.load_bytecode.

For the calls pickle.load(...) and marshal.load(...) inside Bucket.load_bytecode: which exception classes
the enclosing try statement catches *and turns into a cache miss* (handler body: self.reset() and a bare return,
no raise, no assignment to self.code).  A call outside any try gives the empty list.  Anything the translator
does not recognise makes it FAIL (exit 2): unknown class names, several calls, handlers that re-raise, ...

usage: bc_handlers.py <path to bccache.py>      -> Coq text on stdout
"""
import ast
import sys

CLASSES = {
    "BaseException": "HBaseException", "Exception": "HException",
    "EOFError": "HClass EEOF", "ValueError": "HClass EValue", "TypeError": "HClass EType",
    "UnpicklingError": "HClass EUnpickling", "AttributeError": "HClass EAttribute",
    "ImportError": "HClass EImport", "ModuleNotFoundError": "HClass EImport",
    "IndexError": "HClass EIndex", "KeyError": "HClass EKey", "UnicodeDecodeError": "HClass EUnicodeDecode",
    "MemoryError": "HClass EMemory", "OverflowError": "HClass EOverflow",
    "LookupError": "HLookupError", "ArithmeticError": "HArithmeticError",
}


class Fail(Exception):
    pass


def class_name(node):
    if isinstance(node, ast.Name):
        return node.id
    if isinstance(node, ast.Attribute) and isinstance(node.value, ast.Name) and node.value.id == "pickle":
        return node.attr
    raise Fail(f"unrecognised exception expression at line {node.lineno}")


def handler_is_miss(h):
    """body must be: self.reset() ; return   (in this order, nothing else)"""
    body = [s for s in h.body if not (isinstance(s, ast.Expr) and isinstance(s.value, ast.Constant))]
    if len(body) != 2:
        return False
    a, b = body
    ok_reset = (isinstance(a, ast.Expr) and isinstance(a.value, ast.Call) and isinstance(a.value.func, ast.Attribute)
                and a.value.func.attr == "reset" and isinstance(a.value.func.value, ast.Name) and a.value.func.value.id == "self"
                and not a.value.args)
    ok_ret = isinstance(b, ast.Return) and b.value is None
    return ok_reset and ok_ret


def calls_in(node, mod):
    out = []
    for n in ast.walk(node):
        if (isinstance(n, ast.Call) and isinstance(n.func, ast.Attribute) and n.func.attr == "load"
                and isinstance(n.func.value, ast.Name) and n.func.value.id == mod):
            out.append(n)
    return out


def table_for(fn, mod):
    calls = calls_in(fn, mod)
    if len(calls) != 1:
        raise Fail(f"expected exactly one {mod}.load call in load_bytecode, found {len(calls)}")
    call = calls[0]
    # innermost try whose *body* contains the call
    best = None
    for t in [n for n in ast.walk(fn) if isinstance(n, ast.Try)]:
        if any(call in list(ast.walk(s)) for s in t.body):
            if best is None or t in list(ast.walk(best)):
                best = t
    if best is None:
        return []
    if best.finalbody or best.orelse:
        raise Fail("try with else/finally around a load call")
    out = []
    for h in best.handlers:
        if h.type is None:
            names = ["BaseException"]
        elif isinstance(h.type, ast.Tuple):
            names = [class_name(e) for e in h.type.elts]
        else:
            names = [class_name(h.type)]
        if not handler_is_miss(h):
            raise Fail(f"handler at line {h.lineno} is not 'self.reset(); return'")
        for nm in names:
            if nm not in CLASSES:
                raise Fail(f"unknown exception class {nm!r}")
            out.append(CLASSES[nm])
    return out


def main(path):
    tree = ast.parse(open(path).read())
    bucket = next((n for n in tree.body if isinstance(n, ast.ClassDef) and n.name == "Bucket"), None)
    if bucket is None:
        raise Fail("class Bucket not found")
    fn = next((n for n in bucket.body if isinstance(n, ast.FunctionDef) and n.name == "load_bytecode"), None)
    if fn is None:
        raise Fail("Bucket.load_bytecode not found")
    # the order of the three validations: magic test, checksum test, marshal — as positions of the calls
    p, m = table_for(fn, "pickle"), table_for(fn, "marshal")
    lp, lm = calls_in(fn, "pickle")[0].lineno, calls_in(fn, "marshal")[0].lineno
    if not lp < lm:
        raise Fail("marshal.load precedes pickle.load")
    fmt = lambda l: "[" + "; ".join(l) + "]"
    print("(* regenerated from %s by gen/bc_handlers.py — do not edit *)" % path)
    print("From Coq Require Import List NArith Bool.\nImport ListNotations.")
    print("From JV Require Import Model.Bc Proofs.BcProofs Properties.C27.")
    print(f"Definition gen_table : htable := {{| h_pickle := {fmt(p)}; h_marshal := {fmt(m)} |}}.")
    print("Lemma gen_pickle_ok : pickle_table_ok gen_table = true. Proof. vm_compute. reflexivity. Qed.")
    print("Lemma gen_marshal_ok : marshal_table_ok gen_table = true. Proof. vm_compute. reflexivity. Qed.")
    print("(* the theorem instantiated with the table the code has now *)")
    print("Definition gen_load_total magic pl ml := C27_load_total magic pl ml gen_table gen_pickle_ok gen_marshal_ok.")
    print("Definition gen_load_truncated magic pl ml pk mk := C27_load_truncated magic pl ml gen_table pk mk gen_pickle_ok gen_marshal_ok.")
    us = lambda l: ",".join(x.replace(" ", "_") for x in l) or "-"
    print("(* TABLE pickle=%s marshal=%s *)" % (us(p), us(m)))


if __name__ == "__main__":
    try:
        main(sys.argv[1])
    except Fail as e:
        sys.stderr.write("bc_handlers: FAIL: %s\n" % e)
        sys.exit(2)
