"""Translator for C10: the CURRENT source of TemplateStream._buffered_generator as a term of the
deep embedding Lib/PyGen (locals numbered in order of first assignment, the parameter `size` is
variable 0).  The generated file proves the term equal to Proofs/StreamTrans.buffered_term — whose
semantics is proved to be the model function Stream.buffered_go for every size >= 1 and every piece
list — and restates that theorem for the source's own term.  Fail-closed: any statement or
expression outside the embedding raises Untranslatable."""
import ast
import os


class Untranslatable(Exception):
    pass


class T:
    def __init__(self, fn):
        args = [a.arg for a in fn.args.args]
        if args != ["self", "size"] or fn.args.vararg or fn.args.kwarg or fn.args.kwonlyargs or fn.args.defaults:
            raise Untranslatable("signature is not (self, size)")
        self.vars = {"size": 0}

    def var(self, name, store=False):
        if name not in self.vars:
            if not store:
                raise Untranslatable("read of a name that is not a local: " + name)
            self.vars[name] = len(self.vars)
        return self.vars[name]

    def expr(self, e):
        if isinstance(e, ast.Name):
            return "EVar %d" % self.var(e.id)
        if isinstance(e, ast.Constant) and e.value is True:
            return "ETrue"
        if isinstance(e, ast.Constant) and type(e.value) is int and 0 <= e.value < 1000:
            return "ENat %d" % e.value
        if isinstance(e, ast.List) and not e.elts:
            return "ENil"
        if isinstance(e, ast.Compare) and len(e.ops) == 1 and isinstance(e.ops[0], ast.Lt):
            return "ELt (%s) (%s)" % (self.expr(e.left), self.expr(e.comparators[0]))
        if isinstance(e, ast.UnaryOp) and isinstance(e.op, ast.Not):
            return "ENot (%s)" % self.expr(e.operand)
        if isinstance(e, ast.Attribute) and e.attr == "append" and isinstance(e.value, ast.Name):
            return "EAppendOf %d" % self.var(e.value.id)
        if isinstance(e, ast.Call) and not e.keywords and len(e.args) == 1:
            f = ast.unparse(e.func)
            if f == "concat":
                return "EConcat (%s)" % self.expr(e.args[0])
            if f == "next" and ast.unparse(e.args[0]) == "self._gen":
                return "ENext"
        raise Untranslatable("expression: " + ast.unparse(e))

    def stmts(self, body):
        return "[" + "; ".join(self.stmt(s) for s in body) + "]"

    def stmt(self, s):
        if isinstance(s, ast.AnnAssign) and isinstance(s.target, ast.Name) and s.value is not None:
            v = self.expr(s.value)
            return "SAssign %d (%s)" % (self.var(s.target.id, True), v)
        if isinstance(s, ast.Assign) and len(s.targets) == 1 and isinstance(s.targets[0], ast.Name):
            v = self.expr(s.value)
            return "SAssign %d (%s)" % (self.var(s.targets[0].id, True), v)
        if isinstance(s, ast.AugAssign) and isinstance(s.op, ast.Add) and isinstance(s.target, ast.Name) \
                and isinstance(s.value, ast.Constant) and type(s.value.value) is int and 0 <= s.value.value < 1000:
            return "SAugAdd %d %d" % (self.var(s.target.id), s.value.value)
        if isinstance(s, ast.Expr) and isinstance(s.value, ast.Call) and isinstance(s.value.func, ast.Name) \
                and len(s.value.args) == 1 and not s.value.keywords and s.value.func.id in self.vars:
            return "SCall1 (%s) (%s)" % (self.expr(s.value.func), self.expr(s.value.args[0]))
        if isinstance(s, ast.Expr) and isinstance(s.value, ast.Yield) and s.value.value is not None:
            return "SYield (%s)" % self.expr(s.value.value)
        if isinstance(s, ast.Delete) and len(s.targets) == 1 and isinstance(s.targets[0], ast.Subscript) \
                and isinstance(s.targets[0].value, ast.Name) and ast.unparse(s.targets[0].slice) == ":":
            return "SDelAll %d" % self.var(s.targets[0].value.id)
        if isinstance(s, ast.If) and not s.orelse:
            return "SIf (%s) %s" % (self.expr(s.test), self.stmts(s.body))
        if isinstance(s, ast.While) and not s.orelse:
            return "SWhile (%s) %s" % (self.expr(s.test), self.stmts(s.body))
        if isinstance(s, ast.Try) and not s.orelse and not s.finalbody and len(s.handlers) == 1 \
                and s.handlers[0].name is None and s.handlers[0].type is not None \
                and ast.unparse(s.handlers[0].type) == "StopIteration":
            return "STryStop %s %s" % (self.stmts(s.body), self.stmts(s.handlers[0].body))
        if isinstance(s, ast.Return) and s.value is None:
            return "SReturn"
        raise Untranslatable("statement: " + ast.unparse(s).split("\n")[0])


def emit(src_root):
    env = open(os.path.join(src_root, "jinja2", "environment.py")).read()
    tree = ast.parse(env)
    cls = [n for n in tree.body if isinstance(n, ast.ClassDef) and n.name == "TemplateStream"]
    if len(cls) != 1:
        raise Untranslatable("class TemplateStream not found")
    fns = [n for n in cls[0].body if isinstance(n, ast.FunctionDef) and n.name == "_buffered_generator"]
    if len(fns) != 1 or fns[0].decorator_list:
        raise Untranslatable("_buffered_generator not found / decorated")
    # concat is utils.concat = "".join
    utils = ast.parse(open(os.path.join(src_root, "jinja2", "utils.py")).read())
    ok_concat = any(isinstance(n, ast.Assign) and ast.unparse(n.targets[0]) == "concat" and ast.unparse(n.value) == "''.join"
                    for n in utils.body)
    imp = any(isinstance(n, ast.ImportFrom) and n.module == "utils" and any(a.name == "concat" and a.asname is None for a in n.names)
              for n in tree.body)
    shadow = any(isinstance(n, (ast.FunctionDef, ast.ClassDef)) and n.name == "concat" or
                 (isinstance(n, ast.Assign) and any(ast.unparse(t) == "concat" for t in n.targets)) for n in tree.body)
    if not (ok_concat and imp and not shadow):
        raise Untranslatable("concat is not utils.concat = ''.join in environment.py")
    t = T(fns[0])
    body = [s for s in fns[0].body if not (isinstance(s, ast.Expr) and isinstance(s.value, ast.Constant))]
    term = t.stmts(body)
    nvars = len(t.vars)
    lines = ["(* regenerated from %s/jinja2/environment.py by gen/stream_translate.py — do not edit *)" % src_root,
             "From Coq Require Import List Arith.", "Import ListNotations.",
             "From JV Require Import Model.Stream Lib.PyGen Proofs.StreamTrans.", "",
             "(* variables: " + ", ".join("%s = v%d" % (k, v) for k, v in t.vars.items()) + " *)",
             "Definition source_term : list stmt :=", "  " + term + ".",
             "Definition source_nvars : nat := %d." % nvars, "",
             "Theorem source_is_expected : source_term = buffered_term /\\ source_nvars = 5.",
             "Proof. split; reflexivity. Qed.", "",
             "(* the semantics of the current source of _buffered_generator is the model, for every size the",
             "   stream accepts and every piece list *)",
             "Theorem source_semantics : forall size pieces chunks, stream_buffered size pieces = Ok chunks ->",
             "  exists s', run_gen source_term source_nvars size pieces (length pieces + 2) = OReturn s' chunks.",
             "Proof. destruct source_is_expected as [-> ->]. exact buffered_term_stream. Qed.",
             "Print Assumptions source_semantics."]
    return "\n".join(lines) + "\n"


if __name__ == "__main__":
    import sys
    print(emit(sys.argv[1] if len(sys.argv) > 1 else "/repo/src"))
