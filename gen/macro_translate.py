"""T5 translator for jinja2.runtime.Macro.__call__: turns the CURRENT source of the method into a
term of the deep embedding Lib/PyMacro.v and emits Gen_macro.v, which proves

    interpreted source term  =  present (Model.Macro.macro_entry s default_autoescape args kwargs)

for every signature, every positional argument tuple (with or without a leading EvalContext) and
every keyword dict: symbolic evaluation of the loop-free part, and one induction over the list
of remaining parameter names for the `for name in self.arguments[len(arguments):]` loop (no
bound on the number of parameters).  It also checks that __init__ still defines the attributes
the way the embedding's `self_attr` reads them, and that _invoke still applies the function to
the argument list.  Fail-closed: anything outside the vocabulary raises Untranslatable."""
import ast
import os


class Untranslatable(Exception):
    pass


NAMES = {"caller": "n_caller"}          # string constants that are names of the model


def q(s):
    return '"%s"' % s


def is_self_attr(n, attr=None):
    return (isinstance(n, ast.Attribute) and isinstance(n.value, ast.Name) and n.value.id == "self"
            and (attr is None or n.attr == attr))


SELF_ATTRS = {"_argument_count", "arguments", "explicit_caller", "caller", "catch_kwargs", "catch_varargs",
              "_default_autoescape"}


def expr(n):
    if isinstance(n, ast.Name):
        if n.id == "missing":
            return "EMissing"
        if n.id in ("EvalContext",):
            raise Untranslatable("bare class name " + n.id)
        return f"(ELocal {q(n.id)})"
    if isinstance(n, ast.Constant):
        if n.value is None:
            return "ENone"
        if n.value is True:
            return "ETrue"
        if n.value is False:
            return "EFalse"
        if isinstance(n.value, int) and 0 <= n.value < 10:
            return f"(ENat {n.value})"
        if isinstance(n.value, str) and n.value in NAMES:
            return f"(EStr {NAMES[n.value]})"
        raise Untranslatable("constant " + repr(n.value))
    if is_self_attr(n):
        if n.attr not in SELF_ATTRS:
            raise Untranslatable("self attribute " + n.attr)
        return f"(ESelf {q(n.attr)})"
    if isinstance(n, ast.Attribute) and n.attr == "autoescape":
        return f"(EAutoescapeOf {expr(n.value)})"
    if isinstance(n, ast.Subscript):
        s = n.slice
        if isinstance(s, ast.Slice) and s.step is None:
            if s.lower is None and s.upper is not None:
                return f"(ESliceTo {expr(n.value)} {expr(s.upper)})"
            if s.upper is None and s.lower is not None:
                return f"(ESliceFrom {expr(n.value)} {expr(s.lower)})"
        if isinstance(s, ast.Constant) and s.value == 0:
            return f"(EIndex0 {expr(n.value)})"
        raise Untranslatable("subscript " + ast.unparse(n))
    if isinstance(n, ast.Call):
        f = n.func
        if isinstance(f, ast.Name) and not n.keywords and len(n.args) == 1:
            if f.id == "list":
                return f"(EList {expr(n.args[0])})"
            if f.id == "len":
                return f"(ELen {expr(n.args[0])})"
            if f.id == "next":
                a = n.args[0]
                if (isinstance(a, ast.Call) and isinstance(a.func, ast.Name) and a.func.id == "iter" and len(a.args) == 1
                        and isinstance(a.args[0], ast.Name) and not a.keywords):
                    return f"(ENextIter {q(a.args[0].id)})"
        if isinstance(f, ast.Name) and f.id == "isinstance" and len(n.args) == 2 and not n.keywords:
            if isinstance(n.args[1], ast.Name) and n.args[1].id == "EvalContext":
                return f"(EIsEvalCtx {expr(n.args[0])})"
        if isinstance(f, ast.Attribute) and f.attr == "pop" and isinstance(f.value, ast.Name) and not n.keywords:
            if len(n.args) == 1:
                return f"(EKwPop {q(f.value.id)} {expr(n.args[0])})"
            if len(n.args) == 2:
                return f"(EKwPopD {q(f.value.id)} {expr(n.args[0])} {expr(n.args[1])})"
        if ast.unparse(n) == "self._environment.undefined('No caller defined', name='caller')":
            return "EUndefNoCaller"
        raise Untranslatable("call " + ast.unparse(n))
    if isinstance(n, ast.Compare) and len(n.ops) == 1:
        op, a, b = n.ops[0], n.left, n.comparators[0]
        if isinstance(op, ast.In):
            return f"(EIn {expr(a)} {expr(b)})"
        if isinstance(op, ast.Eq):
            return f"(EEq {expr(a)} {expr(b)})"
        if isinstance(op, ast.NotEq):
            return f"(ENe {expr(a)} {expr(b)})"
        if isinstance(op, ast.Gt):
            return f"(EGt {expr(a)} {expr(b)})"
        if isinstance(op, ast.Is) and isinstance(b, ast.Constant) and b.value is None:
            return f"(EIsNone {expr(a)})"
    if isinstance(n, ast.UnaryOp) and isinstance(n.op, ast.Not):
        return f"(ENot {expr(n.operand)})"
    if isinstance(n, ast.BoolOp) and isinstance(n.op, ast.And) and len(n.values) == 2:
        return f"(EAnd {expr(n.values[0])} {expr(n.values[1])})"
    raise Untranslatable("expression " + ast.unparse(n))


RAISE_KINDS = [("two values for the special caller argument", "RTwoCallers"),
               ("takes no keyword argument", "RNoKeyword"),
               ("takes not more than", "RTooMany")]


def raise_stmt(st):
    e = st.exc
    if not (isinstance(e, ast.Call) and isinstance(e.func, ast.Name) and e.func.id == "TypeError" and len(e.args) == 1
            and not e.keywords and st.cause is None):
        raise Untranslatable("raise " + ast.unparse(st))
    msg = e.args[0]
    if not isinstance(msg, ast.JoinedStr):
        raise Untranslatable("raise message " + ast.unparse(msg))
    text = "".join(v.value for v in msg.values if isinstance(v, ast.Constant))
    fvals = [v.value for v in msg.values if isinstance(v, ast.FormattedValue)]
    for frag, kind in RAISE_KINDS:
        if frag in text:
            payload = "ENone"
            if kind == "RNoKeyword":
                cand = [v for v in fvals if ast.unparse(v) != "self.name"]
                if len(cand) != 1:
                    raise Untranslatable("no-keyword message without the offending name")
                payload = expr(cand[0])
            if kind == "RTooMany":
                cand = [ast.unparse(v) for v in fvals if ast.unparse(v) != "self.name"]
                if cand != ["len(self.arguments)"]:
                    raise Untranslatable("too-many message reports " + repr(cand))
            return f"(SRaise {kind} {payload})"
    raise Untranslatable("TypeError message " + text[:60])


class Tr:
    def __init__(self):
        self.loops = []      # (target, body term)
        self.locals = []

    def note(self, name):
        if name not in self.locals:
            self.locals.append(name)

    def stmts(self, body):
        out = []
        for st in body:
            t = self.stmt(st)
            if t is not None:
                out.append(t)
        return "[" + "; ".join(out) + "]"

    def stmt(self, st):
        if isinstance(st, ast.Expr) and isinstance(st.value, ast.Constant) and isinstance(st.value.value, str):
            return None
        if isinstance(st, ast.Pass):
            return "SPass"
        if isinstance(st, ast.Assign) and len(st.targets) == 1 and isinstance(st.targets[0], ast.Name):
            self.note(st.targets[0].id)
            return f"(SAssign {q(st.targets[0].id)} {expr(st.value)})"
        if isinstance(st, ast.If):
            return f"(SIf {expr(st.test)} {self.stmts(st.body)} {self.stmts(st.orelse)})"
        if isinstance(st, ast.For) and isinstance(st.target, ast.Name) and not st.orelse:
            self.note(st.target.id)
            body = self.stmts(st.body)
            self.loops.append((st.target.id, body))
            return f"(SFor {q(st.target.id)} {expr(st.iter)} loop_body_{len(self.loops)})"
        if isinstance(st, ast.Try) and len(st.handlers) == 1 and not st.orelse and not st.finalbody:
            h = st.handlers[0]
            if isinstance(h.type, ast.Name) and h.type.id == "KeyError" and h.name is None:
                return f"(STryKeyError {self.stmts(st.body)} {self.stmts(h.body)})"
        if isinstance(st, ast.Expr) and isinstance(st.value, ast.Call):
            c = st.value
            if (isinstance(c.func, ast.Attribute) and c.func.attr == "append" and isinstance(c.func.value, ast.Name)
                    and len(c.args) == 1 and not c.keywords):
                return f"(SAppend {q(c.func.value.id)} {expr(c.args[0])})"
        if isinstance(st, ast.Raise):
            return raise_stmt(st)
        if isinstance(st, ast.Return) and isinstance(st.value, ast.Call):
            c = st.value
            if is_self_attr(c.func, "_invoke") and len(c.args) == 2 and not c.keywords:
                return f"(SReturnInvoke {expr(c.args[0])} {expr(c.args[1])})"
        raise Untranslatable("statement " + ast.unparse(st)[:80])


INIT_NEED = ["self._argument_count = len(arguments)", "self.arguments = arguments", "self.catch_kwargs = catch_kwargs",
             "self.catch_varargs = catch_varargs", "self.caller = caller", "self.explicit_caller = 'caller' in arguments",
             "self._default_autoescape = default_autoescape", "self._func = func"]
INVOKE_NEED = ["rv = self._func(*arguments)", "rv = await self._func(*arguments)"]


def translate(src_root):
    tree = ast.parse(open(os.path.join(src_root, "jinja2", "runtime.py")).read())
    cls = [n for n in tree.body if isinstance(n, ast.ClassDef) and n.name == "Macro"]
    if len(cls) != 1:
        raise Untranslatable("class Macro not found")
    funcs = {n.name: n for n in cls[0].body if isinstance(n, (ast.FunctionDef, ast.AsyncFunctionDef))}
    for need in ("__init__", "__call__", "_invoke", "_async_invoke"):
        if need not in funcs:
            raise Untranslatable("method missing: " + need)
    init = ast.unparse(funcs["__init__"])
    for need in INIT_NEED:
        if need not in init:
            raise Untranslatable("__init__ no longer contains: " + need)
    inv = ast.unparse(funcs["_invoke"]) + ast.unparse(funcs["_async_invoke"])
    for need in INVOKE_NEED:
        if need not in inv:
            raise Untranslatable("_invoke/_async_invoke no longer contain: " + need)
    f = funcs["__call__"]
    a = f.args
    # `self` positional-only (a keyword argument named self must reach **kwargs) or plain
    if not (len(a.posonlyargs) + len(a.args) == 1 and a.vararg is not None and a.kwarg is not None and not a.kwonlyargs and not a.defaults):
        raise Untranslatable("__call__ signature")
    decos = [ast.unparse(d) for d in f.decorator_list]
    if decos != ["internalcode", "pass_eval_context"]:
        raise Untranslatable("__call__ decorators " + repr(decos))
    tr = Tr()
    tr.note(a.vararg.arg)
    tr.note(a.kwarg.arg)
    body = [s for s in f.body if not (isinstance(s, ast.Expr) and isinstance(s.value, ast.Constant))]
    terms = [tr.stmt(s) for s in body]
    if len(tr.loops) != 1:
        raise Untranslatable(f"{len(tr.loops)} for loops in __call__ (the equation's induction handles exactly one)")
    return {"terms": terms, "loops": tr.loops, "locals": tr.locals, "vararg": a.vararg.arg, "kwarg": a.kwarg.arg}


def emit(src_root):
    t = translate(src_root)
    from macro_template import render
    return render(t, src_root)


if __name__ == "__main__":
    import sys
    sys.path.insert(0, os.path.dirname(os.path.abspath(__file__)))
    print(emit(sys.argv[1] if len(sys.argv) > 1 else "/repo/src"))
