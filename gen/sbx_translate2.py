"""T5 translator, part 2 (C17): the path / folding functions around the sandbox access functions.

Turns the CURRENT source of

    sandbox.SandboxedEnvironment.unsafe_undefined, sandbox.SandboxedFormatter.get_field,
    filters.do_attr, filters.make_attrgetter.<locals>.attrgetter, filters._prepare_attribute_parts,
    nodes.Getattr.as_const, nodes.Getitem.as_const

into terms of Lib/PySbx.v and appends to Gen_sbx_src.v (after the getattr / getitem sections of
gen/sbx_translate.py) the equations  interpreted source term = model function  — the loops of get_field
and attrgetter by induction over the step / part list.  Fail-closed (Untranslatable).
"""
from __future__ import annotations

import ast
import os

from . import sbx_translate as T1
from .sbx_translate import Untranslatable, q

OBJECT_ROOTS = {"self", "eval_ctx", "environment"}
VALUE_METHODS = {"split", "isdigit", "isdecimal"}
PLAIN_FUNCS = {"getattr_static", "formatter_field_name_split", "get_eval_context", "int", "postprocess"}


class Fn2(T1.Fn):
    def __init__(self, node, qual, closure=(), extra_globals=()):
        super_init_ok = False
        try:
            super().__init__(node, qual)
            super_init_ok = True
        except Untranslatable:
            pass
        if not super_init_ok:
            # defaults are allowed here when they are None (eval_ctx=None)
            a = node.args
            if a.posonlyargs or a.kwonlyargs or any(not (isinstance(d, ast.Constant) and d.value is None) for d in a.defaults):
                raise Untranslatable(f"{qual}: parameter list")
            self.node, self.qual = node, qual
            self.params = [p.arg for p in a.args]
            self.vararg = self.kwarg = None
            self.locals = set(self.params)
            for n in ast.walk(node):
                if isinstance(n, ast.Name) and isinstance(n.ctx, ast.Store):
                    self.locals.add(n.id)
            self.types_tested = []
        self.locals |= set(closure)
        self.extra_globals = set(extra_globals)

    def chain_text(self, n):
        """self.attr / eval_ctx.environment ... rooted at an object parameter"""
        parts = []
        while isinstance(n, ast.Attribute):
            parts.append(n.attr)
            n = n.value
        if isinstance(n, ast.Name) and n.id in OBJECT_ROOTS and n.id in self.locals:
            return ".".join([n.id] + parts[::-1])
        return None

    def expr(self, n):
        if isinstance(n, ast.Attribute) and isinstance(n.ctx, ast.Load):
            t = self.chain_text(n)
            if t is not None:
                return f"(EGlobal {q(t)})"
        if isinstance(n, ast.JoinedStr):
            return '(EStr "<f-string>")'
        if isinstance(n, ast.Name) and n.id not in self.locals and n.id in self.extra_globals:
            return f"(EGlobal {q(n.id)})"
        if isinstance(n, ast.List):
            return "(ETuple [" + "; ".join(self.expr(e) for e in n.elts) + "])"
        if isinstance(n, ast.IfExp):
            return f"(EIfExp {self.expr(n.test)} {self.expr(n.body)} {self.expr(n.orelse)})"
        if isinstance(n, ast.ListComp) and len(n.generators) == 1:
            g = n.generators[0]
            if not g.ifs and not g.is_async and isinstance(g.target, ast.Name):
                self.locals.add(g.target.id)
                return f"(EListComp {self.expr(n.elt)} {q(g.target.id)} {self.expr(g.iter)})"
        if isinstance(n, ast.Compare) and len(n.ops) == 1 and isinstance(n.ops[0], ast.NotEq):
            return f"(ENot (EEq {self.expr(n.left)} {self.expr(n.comparators[0])}))"
        return super().expr(n)

    def call(self, n):
        f = n.func
        plain = not n.keywords and not any(isinstance(a, ast.Starred) for a in n.args)
        if isinstance(f, ast.Name) and f.id not in self.locals - {"postprocess"} and plain:
            if f.id == "hasattr" and len(n.args) == 2 and not (isinstance(n.args[0], ast.Name) and n.args[0].id == "types"):
                return f"(EHasattr {self.expr(n.args[0])} {self.expr(n.args[1])})"
            if f.id in PLAIN_FUNCS:
                return f"(ECall {q(f.id)} [" + "; ".join(self.expr(a) for a in n.args) + "] None)"
        if isinstance(f, ast.Attribute):
            if f.attr in VALUE_METHODS and plain and self.chain_text(f.value) is None:
                return f"(ECall {q('.' + f.attr)} [" + "; ".join([self.expr(f.value)] + [self.expr(a) for a in n.args]) + "] None)"
            t = self.chain_text(f)
            if t is not None and not any(isinstance(a, ast.Starred) for a in n.args) and all(k.arg for k in n.keywords):
                args = [self.expr(a) for a in n.args] + [self.expr(k.value) for k in n.keywords]
                sig = [k.arg + "=" for k in n.keywords]
                name = t + ("(" + ",".join(sig) + ")" if sig else "")
                return f"(ECall {q(name)} [" + "; ".join(args) + "] None)"
        return super().call(n)

    def stmt(self, st):
        if isinstance(st, ast.Expr) and isinstance(st.value, ast.Call):
            return f"(SExpr {self.expr(st.value)})"
        if isinstance(st, ast.Assign) and len(st.targets) == 1 and isinstance(st.targets[0], ast.Tuple) \
                and all(isinstance(e, ast.Name) for e in st.targets[0].elts):
            names = "; ".join(q(e.id) for e in st.targets[0].elts)
            return f"(SAssignTuple [{names}] {self.expr(st.value)})"
        if isinstance(st, ast.Raise) and st.exc is not None and isinstance(st.exc, ast.Call) and isinstance(st.exc.func, ast.Name) \
                and not st.exc.args and (st.cause is None or isinstance(st.cause, ast.Name)):
            return f"(SRaise {q(st.exc.func.id)})"
        if isinstance(st, ast.Try) and len(st.handlers) == 1 and not st.finalbody and st.handlers[0].name is not None:
            h = st.handlers[0]
            # `except X as e:` whose name is only used as the cause of a re-raise
            uses = [x for x in ast.walk(ast.Module(body=h.body, type_ignores=[])) if isinstance(x, ast.Name) and x.id == h.name]
            ok = all(isinstance(s_, ast.Raise) and s_.cause is x for x in uses for s_ in h.body if isinstance(s_, ast.Raise)) and \
                len(uses) == sum(1 for s_ in h.body if isinstance(s_, ast.Raise) and isinstance(s_.cause, ast.Name) and s_.cause.id == h.name)
            if ok and h.type is not None:
                names = "[" + "; ".join(q(x) for x in self.exn_names(h.type, st)) + "]"
                return f"(STry {self.stmts(st.body)} {names} {self.stmts(h.body)} {self.stmts(st.orelse)})"
        return super().stmt(st)


def parse(src_root, mod):
    path = os.path.join(src_root, "jinja2", mod + ".py")
    return ast.parse(open(path, encoding="utf-8").read(), path)


def find(tree, qual):
    body = tree.body
    node = None
    for p in qual.split("."):
        node = None
        for n in body:
            if isinstance(n, (ast.FunctionDef, ast.ClassDef)) and n.name == p:
                node = n
        if node is None:
            raise Untranslatable(f"{qual} not found")
        body = node.body
    if not isinstance(node, ast.FunctionDef):
        raise Untranslatable(f"{qual} is not a plain function")
    return node


def translate(src_root):
    sb, fl, nd = parse(src_root, "sandbox"), parse(src_root, "filters"), parse(src_root, "nodes")
    out = {}

    def add(key, fn, nparams):
        if len(fn.params) != nparams:
            raise Untranslatable(f"{fn.qual}: parameter list {fn.params} is not the modelled one")
        out[key] = {"body": fn.stmts(fn.node.body), "params": fn.params}

    add("unsafe_undefined", Fn2(find(sb, "SandboxedEnvironment.unsafe_undefined"), "unsafe_undefined", extra_globals={"SecurityError"}), 3)
    gf = Fn2(find(sb, "SandboxedFormatter.get_field"), "get_field")
    add("get_field", gf, 4)
    body = [s for s in gf.node.body if not (isinstance(s, ast.Expr) and isinstance(s.value, ast.Constant))]
    if not (len(body) == 4 and isinstance(body[2], ast.For) and isinstance(body[2].target, ast.Tuple) and len(body[2].target.elts) == 2
            and isinstance(body[2].iter, ast.Name)):
        raise Untranslatable("get_field: body is not  split; get_value; for is_attr, i in rest: ...; return")
    out["get_field"].update(pre=gf.stmts(body[:2]), loop=gf.stmts(body[2].body), post=gf.stmts(body[3:]),
                            targets=[e.id for e in body[2].target.elts], iter=body[2].iter.id,
                            split_targets=[e.id for e in body[0].targets[0].elts] if isinstance(body[0], ast.Assign)
                            and isinstance(body[0].targets[0], ast.Tuple) else None)
    da = find(fl, "do_attr")
    if [ast.unparse(d) for d in da.decorator_list] != ["pass_environment"]:
        raise Untranslatable("do_attr is no longer decorated with pass_environment only")
    da.decorator_list = []
    add("do_attr", Fn2(da, "do_attr"), 3)
    mk = find(fl, "make_attrgetter")
    inner = [n for n in mk.body if isinstance(n, ast.FunctionDef)]
    mk_rest = [n for n in mk.body if not isinstance(n, ast.FunctionDef)
               and not (isinstance(n, ast.Expr) and isinstance(n.value, ast.Constant))]
    if len(inner) != 1 or [ast.unparse(s) for s in mk_rest] != ["parts = _prepare_attribute_parts(attribute)", f"return {inner[0].name}"]:
        raise Untranslatable("make_attrgetter: not  parts = _prepare_attribute_parts(attribute); def f(item): ...; return f")
    ag = Fn2(inner[0], "make_attrgetter.attrgetter", closure={"parts", "default", "postprocess", "environment"}, extra_globals={"Undefined"})
    add("attrgetter", ag, 1)
    body = [s for s in ag.node.body if not (isinstance(s, ast.Expr) and isinstance(s.value, ast.Constant))]
    if not (body and isinstance(body[0], ast.For) and isinstance(body[0].target, ast.Name) and isinstance(body[0].iter, ast.Name)
            and body[0].iter.id == "parts"):
        raise Untranslatable("attrgetter: body does not start with  for part in parts")
    out["attrgetter"].update(loop=ag.stmts(body[0].body), post=ag.stmts(body[1:]), target=body[0].target.id)
    add("prepare_parts", Fn2(find(fl, "_prepare_attribute_parts"), "_prepare_attribute_parts"), 1)
    add("getattr_as_const", Fn2(find(nd, "Getattr.as_const"), "Getattr.as_const"), 2)
    add("getitem_as_const", Fn2(find(nd, "Getitem.as_const"), "Getitem.as_const", extra_globals={"Slice"}), 2)
    return out


COQ = r'''
(* ################################################################## part 2: gen/sbx_translate2.py
   regenerated from %(root)s/jinja2/{sandbox,filters,nodes}.py *)
From JV Require Import Model.SbxFold Model.SbxParts.

%(bodies)s

(* ================================================================== unsafe_undefined *)
Definition uu_call (f : string) (args : list (pv value)) : list noev * outcome (pv value) :=
  if String.eqb f "self.undefined(name=,obj=,exc=)" then
    match args with
    | [_; _; PObj _; PStr x] => ([], Norm (PObj (if String.eqb x "SecurityError" then VUnsafe else VUndef)))
    | _ => ([], Exc "TypeError")
    end
  else ([], Exc "NameError").
Definition uu_globals (n : string) : pv value := if String.eqb n "SecurityError" then PStr "SecurityError" else PNone.
Definition src_unsafe_undefined (o : value) (a : pv value) : list noev * outcome (pv value) :=
  run value noev uu_globals yes no_getattr no_getitem uu_call exn_isa body_unsafe_undefined
      [(%(uu_self)s, PNone); (%(uu_obj)s, PObj o); (%(uu_attr)s, a)].
Theorem unsafe_undefined_source_eq_model : forall o a, src_unsafe_undefined o a = ([], Norm (PObj VUnsafe)).
Proof. intros o a. reflexivity. Qed.

(* ---- the Python-visible result of a path walk, step by step *)
Lemma visible_walk_cons : forall tb o s r,
  visible (walk tb o (s :: r)) =
  match visible (do_step tb o s) with
  | (_, Norm (PObj v)) => visible (walk tb v r)
  | other => other
  end.
Proof.
  intros tb o s r. destruct r as [|s2 r2].
  - cbn [walk]. destruct (do_step tb o s) as [v|v|v| | |[]]; reflexivity.
  - cbn [walk]. fold walk. destruct (do_step tb o s) as [v|v|v| | |[]]; reflexivity.
Qed.

Definition step_call (tb : tables) (pre : string) (f : string) (args : list (pv value)) : list noev * outcome (pv value) :=
  if String.eqb f (pre ++ ".getattr") then
    match args with [PObj o; PStr a] => src_getattr tb o a | _ => ([], Exc "TypeError") end
  else if String.eqb f (pre ++ ".getitem") then
    match args with
    | [PObj o; PStr a] => src_getitem tb o (KStr a)
    | [PObj o; PInt z] => src_getitem tb o (KInt z)
    | [PObj o; PSub c a] => src_getitem tb o (KSub c a)
    | _ => ([], Exc "TypeError")
    end
  else ([], Exc "NameError").

Lemma src_getitem_pv : forall tb o k,
  match pv_of_key k with
  | PStr a => src_getitem tb o (KStr a)
  | PInt z => src_getitem tb o (KInt z)
  | PSub c a => src_getitem tb o (KSub c a)
  | _ => ([], Exc "TypeError")
  end = visible (sandbox_getitem tb o k).
Proof. intros tb o [a|z|c a]; cbn [pv_of_key]; apply getitem_source_eq_model. Qed.

(* ================================================================== make_attrgetter(...)(item)
   (default = None, postprocess = None: the plain attribute getter the filters use) *)
Definition ag_globals (n : string) : pv value := if String.eqb n "Undefined" then PTy (fun v => match v with VUndef | VUnsafe => true | _ => false end) else PNone.
Definition ag_step (tb : tables) (x : pv value) (en1 : env value) : fres value noev :=
  execs value noev ag_globals yes acc_getattr acc_getitem (step_call tb "environment") exn_isa ag_loop
        (bind_target value [%(ag_target)s] x en1).

Lemma ag_step_eq : forall tb k en o, env_get value %(ag_item)s en = PObj o -> env_get value "default" en = PNone ->
  ag_step tb (pv_of_key k) en =
  match visible (sandbox_getitem tb o k) with
  | (_, Norm v) => ([], Fall ((%(ag_item)s, v) :: (%(ag_target)s, pv_of_key k) :: en))
  | (_, Exc x) => ([], Raise x)
  end.
Proof.
  intros tb k en o Ho Hd. unfold ag_step, ag_loop. cbn -[src_getitem pv_of_key].
  rewrite Ho. cbn -[src_getitem pv_of_key]. unfold step_call. cbn -[src_getitem pv_of_key].
  rewrite (src_getitem_pv tb o k).
  destruct (visible (sandbox_getitem tb o k)) as [l [v|x]] eqn:Ev.
  - assert (l = []) by (destruct (sandbox_getitem tb o k) as [w|w|w| | |[]]; cbn in Ev; injection Ev; auto). subst l.
    cbn -[pv_of_key]. rewrite Hd. reflexivity.
  - assert (l = []) by (destruct (sandbox_getitem tb o k) as [w|w|w| | |[]]; cbn in Ev; injection Ev; auto). subst l.
    reflexivity.
Qed.

Lemma ag_iterate : forall tb parts en o, env_get value %(ag_item)s en = PObj o -> env_get value "default" en = PNone ->
  match visible (walk tb o (map SItem parts)) with
  | (_, Norm v) => exists en', iterate value noev (ag_step tb) (map pv_of_key parts) en = ([], Fall en')
                               /\ env_get value %(ag_item)s en' = v /\ env_get value "postprocess" en' = env_get value "postprocess" en
  | (_, Exc x) => iterate value noev (ag_step tb) (map pv_of_key parts) en = ([], Raise x)
  end.
Proof.
  intros tb parts. induction parts as [|k rest IH]; intros en o Ho Hd.
  - cbn. exists en. auto.
  - cbn [map]. rewrite visible_walk_cons. cbn [do_step iterate]. rewrite (ag_step_eq tb k en o Ho Hd).
    destruct (visible (sandbox_getitem tb o k)) as [l [v|x]] eqn:Ev; [|reflexivity].
    assert (Hv : (exists w, v = PObj w)) by (destruct (sandbox_getitem tb o k) as [w|w|w| | |[]]; cbn in Ev; inversion Ev; eauto).
    destruct Hv as [w ->]. cbn [then_ app].
    specialize (IH ((%(ag_item)s, PObj w) :: (%(ag_target)s, pv_of_key k) :: en) w eq_refl Hd).
    destruct (visible (walk tb w (map SItem rest))) as [l2 [v2|x2]].
    + destruct IH as [en' [Hi [Hv Hp]]]. exists en'. rewrite Hi. auto.
    + rewrite IH. reflexivity.
Qed.

Definition src_attrgetter (tb : tables) (parts : list key) (o : value) : list noev * outcome (pv value) :=
  run value noev ag_globals yes acc_getattr acc_getitem (step_call tb "environment") exn_isa body_attrgetter
      [(%(ag_item)s, PObj o); ("parts", PTuple (map pv_of_key parts)); ("default", PNone); ("postprocess", PNone)].

Theorem attrgetter_source_eq_model : forall tb parts o, src_attrgetter tb parts o = visible (attrgetter tb parts o).
Proof.
  intros tb parts o. unfold src_attrgetter, attrgetter. rewrite body_attrgetter_shape. unfold run. cbn [execs].
  assert (Hfor : exec value noev ag_globals yes acc_getattr acc_getitem (step_call tb "environment") exn_isa
                   (SFor [%(ag_target)s] (EVar "parts") ag_loop)
                   [(%(ag_item)s, PObj o); ("parts", PTuple (map pv_of_key parts)); ("default", PNone); ("postprocess", PNone)]
                 = iterate value noev (ag_step tb) (map pv_of_key parts)
                   [(%(ag_item)s, PObj o); ("parts", PTuple (map pv_of_key parts)); ("default", PNone); ("postprocess", PNone)]).
  { cbn [exec eval ret of_eval env_get String.eqb Ascii.eqb Bool.eqb].
    match goal with |- (let (_, _) := ?x in _) = ?y => change x with y; destruct y; reflexivity end. }
  rewrite Hfor.
  pose proof (ag_iterate tb parts [(%(ag_item)s, PObj o); ("parts", PTuple (map pv_of_key parts)); ("default", PNone); ("postprocess", PNone)]
                o eq_refl eq_refl) as H.
  destruct (visible (walk tb o (map SItem parts))) as [l [v|x]] eqn:Ev.
  - destruct H as [en' [Hi [Hv Hp]]]. rewrite Hi. cbn. rewrite Hp. cbn. rewrite Hv.
    assert (l = []) by (destruct (walk tb o (map SItem parts)) as [w|w|w| | |[]]; cbn in Ev; injection Ev; auto). subst. reflexivity.
  - rewrite H. cbn.
    assert (l = []) by (destruct (walk tb o (map SItem parts)) as [w|w|w| | |[]]; cbn in Ev; injection Ev; auto). subst. reflexivity.
Qed.

(* ================================================================== SandboxedFormatter.get_field *)
Definition step_value (s : step) : pv value :=
  match s with SAttr a => PTuple [PBool true; PStr a] | SItem k => PTuple [PBool false; pv_of_key k] end.
Definition gf_call (tb : tables) (args : list value) (kwargs : list (string * value)) (first : key) (rest : list step)
           (f : string) (a : list (pv value)) : list noev * outcome (pv value) :=
  if String.eqb f "formatter_field_name_split" then ([], Norm (PTuple [pv_of_key first; PTuple (map step_value rest)]))
  else if String.eqb f "self.get_value" then
    match get_value args kwargs first with
    | Some o => ([], Norm (PObj o))
    | None => ([], Exc (match first with KInt _ => "IndexError" | _ => "KeyError" end))
    end
  else step_call tb "self._env" f a.
Definition gf_step (tb : tables) args kwargs first rest (x : pv value) (en1 : env value) : fres value noev :=
  execs value noev no_globals yes acc_getattr acc_getitem (gf_call tb args kwargs first rest) exn_isa gf_loop
        (bind_target value [%(gf_t1)s; %(gf_t2)s] x en1).

Lemma gf_step_eq : forall tb args kwargs first rest s en o, env_get value "obj" en = PObj o ->
  gf_step tb args kwargs first rest (step_value s) en =
  match visible (do_step tb o s) with
  | (_, Norm v) => ([], Fall (("obj", v) :: match s with
                                            | SAttr a => (%(gf_t2)s, PStr a) :: (%(gf_t1)s, PBool true) :: en
                                            | SItem k => (%(gf_t2)s, pv_of_key k) :: (%(gf_t1)s, PBool false) :: en
                                            end))
  | (_, Exc x) => ([], Raise x)
  end.
Proof.
  intros tb args kwargs first rest s en o Ho. unfold gf_step, gf_loop. destruct s as [a|k].
  - cbn -[src_getattr]. rewrite Ho. unfold gf_call, step_call. cbn -[src_getattr].
    rewrite getattr_source_eq_model.
    destruct (sandbox_getattr tb o a) as [w|w|w| | |[]]; reflexivity.
  - cbn -[src_getitem pv_of_key]. rewrite Ho. unfold gf_call, step_call. cbn -[src_getitem pv_of_key].
    rewrite (src_getitem_pv tb o k).
    destruct (sandbox_getitem tb o k) as [w|w|w| | |[]]; reflexivity.
Qed.

Lemma gf_iterate : forall tb args kwargs first rest0 steps en o, env_get value "obj" en = PObj o ->
  match visible (walk tb o steps) with
  | (_, Norm v) => exists en', iterate value noev (gf_step tb args kwargs first rest0) (map step_value steps) en = ([], Fall en')
                               /\ env_get value "obj" en' = v /\ env_get value %(gf_first)s en' = env_get value %(gf_first)s en
  | (_, Exc x) => iterate value noev (gf_step tb args kwargs first rest0) (map step_value steps) en = ([], Raise x)
  end.
Proof.
  intros tb args kwargs first rest0 steps. induction steps as [|s rest IH]; intros en o Ho.
  - cbn. exists en. auto.
  - cbn [map]. rewrite visible_walk_cons. cbn [iterate]. rewrite (gf_step_eq tb args kwargs first rest0 s en o Ho).
    destruct (visible (do_step tb o s)) as [l [v|x]] eqn:Ev; [|reflexivity].
    assert (Hv : (exists w, v = PObj w)).
    { destruct s; cbn [do_step] in Ev;
        [destruct (sandbox_getattr tb o a) as [w|w|w| | |[]]|destruct (sandbox_getitem tb o k) as [w|w|w| | |[]]];
        cbn in Ev; inversion Ev; eauto. }
    destruct Hv as [w ->]. cbn [then_ app].
    match goal with |- context [iterate _ _ _ _ ?E] => specialize (IH E w) end.
    assert (Hobj : forall tl, env_get value "obj" (("obj", PObj w) :: tl) = PObj w) by reflexivity.
    specialize (IH (Hobj _)).
    destruct (visible (walk tb w rest)) as [l2 [v2|x2]].
    + destruct IH as [en' [Hi [Hv Hp]]]. exists en'. rewrite Hi. split; [reflexivity|]. split; [exact Hv|].
      rewrite Hp. destruct s; reflexivity.
    + rewrite IH. reflexivity.
Qed.

Definition src_get_field (tb : tables) (args : list value) (kwargs : list (string * value)) (first : key) (rest : list step)
  : list noev * outcome (pv value) :=
  run value noev no_globals yes acc_getattr acc_getitem (gf_call tb args kwargs first rest) exn_isa body_get_field
      [(%(gf_self)s, PNone); (%(gf_name)s, PNone); (%(gf_args)s, PNone); (%(gf_kwargs)s, PNone)].

Theorem get_field_source_eq_model : forall tb args kwargs first rest,
  src_get_field tb args kwargs first rest =
  match visible (get_field tb args kwargs first rest) with
  | (l, Norm v) => (l, Norm (PTuple [v; pv_of_key first]))
  | other => other
  end.
Proof.
  intros tb args kwargs first rest. unfold src_get_field, get_field. rewrite body_get_field_shape. unfold run, gf_pre.
  (* the two statements before the loop (the loop and what follows are kept folded meanwhile) *)
  cbn [app]. remember (SFor [%(gf_t1)s; %(gf_t2)s] (EVar %(gf_t_rest)s) gf_loop :: gf_post) as tail eqn:Htail.
  cbn [execs]. cbn [exec eval ret of_eval bind app].
  unfold gf_call at 1. cbn [String.eqb Ascii.eqb Bool.eqb].
  cbn [of_eval then_ app List.length Nat.eqb bind_targets].
  cbn [exec eval ret of_eval bind app env_get String.eqb Ascii.eqb Bool.eqb].
  unfold gf_call at 1. cbn [String.eqb Ascii.eqb Bool.eqb].
  destruct (get_value args kwargs first) as [o|] eqn:Eg; [|destruct first; reflexivity].
  cbn [of_eval then_ app].
  set (en1 := [("obj", PObj o); (%(gf_t_rest)s, PTuple (map step_value rest)); (%(gf_first)s, pv_of_key first);
               (%(gf_self)s, PNone); (%(gf_name)s, PNone); (%(gf_args)s, PNone); (%(gf_kwargs)s, PNone)]).
  assert (Hfor : exec value noev no_globals yes acc_getattr acc_getitem (gf_call tb args kwargs first rest) exn_isa
                   (SFor [%(gf_t1)s; %(gf_t2)s] (EVar %(gf_t_rest)s) gf_loop) en1
                 = iterate value noev (gf_step tb args kwargs first rest) (map step_value rest) en1).
  { unfold en1. cbn [exec eval ret of_eval env_get String.eqb Ascii.eqb Bool.eqb].
    match goal with |- (let (_, _) := ?x in _) = ?y => change x with y; destruct y; reflexivity end. }
  subst tail. cbn [execs]. rewrite Hfor.
  pose proof (gf_iterate tb args kwargs first rest rest en1 o eq_refl) as H.
  destruct (visible (walk tb o rest)) as [l [v|x]] eqn:Ev.
  - destruct H as [en' [Hi [Hv Hp]]]. rewrite Hi. unfold gf_post. cbn -[pv_of_key]. rewrite Hv, Hp. cbn -[pv_of_key].
    assert (l = []) by (destruct (walk tb o rest) as [w|w|w| | |[]]; cbn in Ev; injection Ev; auto). subst. reflexivity.
  - rewrite H. cbn.
    assert (l = []) by (destruct (walk tb o rest) as [w|w|w| | |[]]; cbn in Ev; injection Ev; auto). subst. reflexivity.
Qed.

(* ================================================================== filters.do_attr *)
Definition da_call (tb : tables) (f : string) (args : list (pv value)) : list noev * outcome (pv value) :=
  if String.eqb f "getattr_static" then
    match args with
    | [PObj o; PStr a] => match py_getattr o a with Some v => ([], Norm (PObj v)) | None => ([], Exc "AttributeError") end
    | _ => ([], Exc "TypeError")
    end
  else if String.eqb f "environment.undefined(obj=,name=)" then
    match args with [PObj _; _] => ([], Norm (PObj VUndef)) | _ => ([], Exc "TypeError") end
  else step_call tb "environment" f args.
Definition src_do_attr (tb : tables) (o : value) (a : string) : list noev * outcome (pv value) :=
  run value noev no_globals yes acc_getattr acc_getitem (da_call tb) exn_isa body_do_attr
      [(%(da_env)s, PNone); (%(da_obj)s, PObj o); (%(da_name)s, PStr a)].
Theorem do_attr_source_eq_model : forall tb o a, src_do_attr tb o a = visible (do_attr tb o a).
Proof.
  intros tb o a. unfold src_do_attr, body_do_attr, do_attr, run.
  destruct o; cbn -[src_getattr py_getattr]; unfold da_call, step_call; cbn -[src_getattr py_getattr];
    try reflexivity;
    match goal with
    | |- context [py_getattr ?x a] => destruct (py_getattr x a) eqn:Ea; cbn -[src_getattr py_getattr];
        try rewrite Ea; cbn -[src_getattr py_getattr]; try rewrite getattr_source_eq_model; try reflexivity
    end;
    unfold sandbox_getattr; rewrite Ea;
    match goal with |- context [attr_branch ?t ?x ?n ?w] => destruct (attr_branch t x n w) as [u|u|u| | |[]] end; reflexivity.
Qed.

(* ================================================================== filters._prepare_attribute_parts
   str.split("."), str.isdigit and int are primitives of the world (any functions) *)
Section Parts.
  Variable split_dot : string -> list string.
  Variable isdigit : string -> bool.
  Variable to_int : string -> Z.
  Definition pp_call (f : string) (args : list (pv value)) : list noev * outcome (pv value) :=
    if String.eqb f ".split" then
      match args with [PStr s; PStr d] => if String.eqb d "." then ([], Norm (PTuple (map PStr (split_dot s)))) else ([], Exc "NameError")
                 | _ => ([], Exc "TypeError") end
    else if String.eqb f %(pp_digit)s then
      match args with [PStr s] => ([], Norm (PBool (isdigit s))) | _ => ([], Exc "TypeError") end
    else if String.eqb f "int" then
      match args with [PStr s] => ([], Norm (PInt (to_int s))) | _ => ([], Exc "TypeError") end
    else ([], Exc "NameError").
  Definition pp_globals (n : string) : pv value := if String.eqb n "str" then PStrTy else PNone.
  Definition attr_pv (a : attr_arg) : pv value := match a with ANone => PNone | AStr s => PStr s | AInt z => PInt z end.
  Definition src_prepare_parts (a : attr_arg) : list noev * outcome (pv value) :=
    run value noev pp_globals yes acc_getattr acc_getitem pp_call exn_isa body_prepare_parts [(%(pp_attr)s, attr_pv a)].

  Theorem prepare_parts_source_eq_model : forall a,
    src_prepare_parts a = ([], Norm (PTuple (map pv_of_key (prepare_parts split_dot isdigit to_int a)))).
  Proof.
    intros [|s|z]; unfold src_prepare_parts, body_prepare_parts, run, prepare_parts; cbn -[map]; try reflexivity.
    (* the comprehension: structural recursion over the list of parts *)
    match goal with |- context [?F (map PStr (split_dot s))] =>
      assert (HF : forall l, F (map PStr l) =
                             ([], Norm (map pv_of_key (map (fun x => if isdigit x then KInt (to_int x) else KStr x) l))))
    end.
    { induction l as [|x r IH]; [reflexivity|]. cbn [map]. cbn -[map] in *. rewrite IH. cbn. destruct (isdigit x); reflexivity. }
    rewrite HF. reflexivity.
  Qed.
End Parts.

(* ================================================================== nodes.Getattr.as_const / Getitem.as_const
   one folding step: the operand's fold result is given ([None] = Impossible) *)
Definition fold_inner (inner : option value) : list noev * outcome (pv value) :=
  match inner with Some o => ([], Norm (PObj o)) | None => ([], Exc "Impossible") end.
Definition ac_call (tb : tables) (inner : option value) (k : key) (f : string) (args : list (pv value)) : list noev * outcome (pv value) :=
  if String.eqb f "get_eval_context" then ([], Norm PNone)
  else if String.eqb f "self.node.as_const" then fold_inner inner
  else if String.eqb f "self.arg.as_const" then ([], Norm (pv_of_key k))
  else step_call tb "eval_ctx.environment" f args.
Definition ac_globals (load : bool) (a : string) (n : string) : pv value :=
  if String.eqb n "self.ctx" then PStr (if load then "load" else "store")
  else if String.eqb n "self.attr" then PStr a
  else if String.eqb n "Slice" then PTy (fun _ => false)
  else PNone.
Definition visible_fold (r : option value) : list noev * outcome (pv value) :=
  match r with Some v => ([], Norm (PObj v)) | None => ([], Exc "Impossible") end.

Definition src_getattr_as_const (tb : tables) (load : bool) (inner : option value) (a : string) :=
  run value noev (ac_globals load a) yes acc_getattr acc_getitem (ac_call tb inner (KStr a)) exn_isa body_getattr_as_const
      [(%(ac1_self)s, PNone); (%(ac1_ctx)s, PNone)].
Definition src_getitem_as_const (tb : tables) (load : bool) (inner : option value) (k : key) :=
  run value noev (ac_globals load "") yes acc_getattr acc_getitem (ac_call tb inner k) exn_isa body_getitem_as_const
      [(%(ac2_self)s, PNone); (%(ac2_ctx)s, PNone)].

Theorem getattr_as_const_source_eq_model : forall tb e a,
  src_getattr_as_const tb true (as_const tb e) a = visible_fold (as_const tb (CAttr e a))
  /\ forall inner, src_getattr_as_const tb false inner a = ([], Exc "Impossible").
Proof.
  intros tb e a. split.
  - unfold src_getattr_as_const, body_getattr_as_const, run. cbn [as_const].
    destruct (as_const tb e) as [o|]; cbn -[src_getattr]; [|reflexivity].
    unfold ac_call, step_call. cbn -[src_getattr]. rewrite getattr_source_eq_model.
    destruct (sandbox_getattr tb o a) as [w|w|w| | |[]]; reflexivity.
  - intros inner. reflexivity.
Qed.

Theorem getitem_as_const_source_eq_model : forall tb e k,
  src_getitem_as_const tb true (as_const tb e) k = visible_fold (as_const tb (CItem e k))
  /\ forall inner, src_getitem_as_const tb false inner k = ([], Exc "Impossible").
Proof.
  intros tb e k. split.
  - unfold src_getitem_as_const, body_getitem_as_const, run. cbn [as_const].
    destruct (as_const tb e) as [o|]; cbn -[src_getitem pv_of_key]; [|reflexivity].
    unfold ac_call, step_call. cbn -[src_getitem pv_of_key].
    pose proof (src_getitem_pv tb o k) as Hk.
    destruct k as [s|z|c s]; cbn [pv_of_key] in *; cbn -[src_getitem]; rewrite Hk;
      match goal with |- context [sandbox_getitem tb o ?kk] => destruct (sandbox_getitem tb o kk) as [w|w|w| | |[]] end; reflexivity.
  - intros inner. reflexivity.
Qed.

Print Assumptions unsafe_undefined_source_eq_model.
Print Assumptions attrgetter_source_eq_model.
Print Assumptions get_field_source_eq_model.
Print Assumptions do_attr_source_eq_model.
Print Assumptions prepare_parts_source_eq_model.
Print Assumptions getattr_as_const_source_eq_model.
Print Assumptions getitem_as_const_source_eq_model.
'''

THEOREMS2 = ["unsafe_undefined_source_eq_model", "attrgetter_source_eq_model", "get_field_source_eq_model",
             "do_attr_source_eq_model", "prepare_parts_source_eq_model", "getattr_as_const_source_eq_model",
             "getitem_as_const_source_eq_model"]


def emit(src_root):
    """part 1 (internal, safe, access sections) + part 2; returns (text, theorem names)"""
    text1, thms1 = T1.emit(src_root, ("internal", "safe", "access"))
    t = translate(src_root)
    d = {"root": src_root}
    bodies = [f"Definition body_{k} : list stmt := {v['body']}." for k, v in t.items()]
    ag, gf = t["attrgetter"], t["get_field"]
    bodies.append(f"Definition ag_loop : list stmt := {ag['loop']}.")
    bodies.append(f"Definition ag_post : list stmt := {ag['post']}.")
    bodies.append(f"Lemma body_attrgetter_shape : body_attrgetter = SFor [{q(ag['target'])}] (EVar \"parts\") ag_loop :: ag_post.\nProof. reflexivity. Qed.")
    bodies.append(f"Definition gf_pre : list stmt := {gf['pre']}.")
    bodies.append(f"Definition gf_loop : list stmt := {gf['loop']}.")
    bodies.append(f"Definition gf_post : list stmt := {gf['post']}.")
    bodies.append(f"Lemma body_get_field_shape : body_get_field = gf_pre ++ SFor [{q(gf['targets'][0])}; {q(gf['targets'][1])}] (EVar {q(gf['iter'])}) gf_loop :: gf_post.\nProof. reflexivity. Qed.")
    d["bodies"] = "\n".join(bodies)
    d["uu_self"], d["uu_obj"], d["uu_attr"] = map(q, t["unsafe_undefined"]["params"])
    d["ag_item"], d["ag_target"] = q(ag["params"][0]), q(ag["target"])
    d["gf_self"], d["gf_name"], d["gf_args"], d["gf_kwargs"] = map(q, gf["params"])
    d["gf_t1"], d["gf_t2"] = q(gf["targets"][0]), q(gf["targets"][1])
    if not gf["split_targets"] or gf["split_targets"][1] != gf["iter"]:
        raise Untranslatable("get_field: the loop does not iterate over the second result of formatter_field_name_split")
    d["gf_first"] = q(gf["split_targets"][0])
    d["gf_t_rest"] = q(gf["iter"])
    d["da_env"], d["da_obj"], d["da_name"] = map(q, t["do_attr"]["params"])
    d["pp_attr"] = q(t["prepare_parts"]["params"][0])
    # the comprehension of _prepare_attribute_parts: element expression and variable, for the induction lemma
    import re
    md = re.search(r'\(EIfExp \(ECall "(\.isdigit|\.isdecimal)"', t["prepare_parts"]["body"])
    if not md:
        raise Untranslatable("_prepare_attribute_parts: the integer test of a part is neither isdigit() nor isdecimal()")
    d["pp_digit"] = q(md.group(1))
    m = re.search(r'\(EListComp (.*) "([A-Za-z_0-9]+)" \(ECall "\.split"', t["prepare_parts"]["body"])
    if not m:
        raise Untranslatable("_prepare_attribute_parts: no list comprehension over attr.split('.')")
    d["pp_elt"], d["pp_var"] = m.group(1), q(m.group(2))
    d["ac1_self"], d["ac1_ctx"] = map(q, t["getattr_as_const"]["params"])
    d["ac2_self"], d["ac2_ctx"] = map(q, t["getitem_as_const"]["params"])
    part1 = text1.split("\nPrint Assumptions")[0]
    return part1 + COQ % d + "\n" + "\n".join(f"Print Assumptions {x}." for x in thms1) + "\n", thms1 + THEOREMS2


if __name__ == "__main__":
    import sys
    print(emit(sys.argv[1] if len(sys.argv) > 1 else "/repo/src")[0])
