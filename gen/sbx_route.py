"""Regenerated routing decision table of compiler.visit_Getattr / visit_Getitem / visit_Call.

A small symbolic executor walks the CURRENT bodies of the three visitors: every statement that emits
code must be one of
    self.write(<string literal or f-string>)          token  W:<text>   (f-string fields kept as {source})
    self.visit(node.<field>, frame)                   token  V:<field>
    self.signature(node, frame, <name>)               token  S
    if <cond>: ... [else: ...]                        cond in {self.environment.is_async, self.environment.sandboxed,
                                                               isinstance(node.arg, nodes.Slice)}
statements that cannot emit (no self.write / self.visit / self.signature inside) are skipped; anything
else raises Untranslatable.  The result is, per visitor, the token list for every assignment of the
conditions it tests — emitted as Coq data; the obligations over it (Model/SbxRoute.v) are what
C17_codegen_no_raw_attr / C18_calls_gated rely on: which environment method is emitted under which
(sandboxed, async, slice) condition.
"""
from __future__ import annotations

import ast
import itertools
import os

CONDS = {
    "self.environment.is_async": "async",
    "self.environment.sandboxed": "sandboxed",
    "isinstance(node.arg, nodes.Slice)": "slice",
}
VISITORS = ("visit_Getattr", "visit_Getitem", "visit_Call")


class Untranslatable(Exception):
    pass


def emits(node):
    for n in ast.walk(node):
        if isinstance(n, ast.Call) and isinstance(n.func, ast.Attribute) and isinstance(n.func.value, ast.Name) \
                and n.func.value.id == "self" and n.func.attr in ("write", "visit", "signature", "writeline", "newline",
                                                                  "indent", "outdent", "visit_Slice"):
            return True
    return False


def text_of(arg, fn):
    if isinstance(arg, ast.Constant) and isinstance(arg.value, str):
        return arg.value
    if isinstance(arg, ast.JoinedStr):
        out = ""
        for v in arg.values:
            if isinstance(v, ast.Constant):
                out += v.value
            else:
                out += "{" + ast.unparse(v.value) + ("!r" if v.conversion == 114 else "") + "}"
        return out
    raise Untranslatable(f"{fn}: self.write argument {ast.unparse(arg)[:60]}")


def run(stmts, env, fn, used):
    toks = []
    for st in stmts:
        if isinstance(st, ast.Expr) and isinstance(st.value, ast.Constant):
            continue
        if not emits(st):
            continue
        if isinstance(st, ast.If):
            c = ast.unparse(st.test)
            if c not in CONDS:
                raise Untranslatable(f"{fn}: condition {c!r} guards emitted code")
            used.add(CONDS[c])
            toks += run(st.body if env[CONDS[c]] else st.orelse, env, fn, used)
            continue
        if isinstance(st, ast.Expr) and isinstance(st.value, ast.Call) and isinstance(st.value.func, ast.Attribute) \
                and isinstance(st.value.func.value, ast.Name) and st.value.func.value.id == "self" and not st.value.keywords:
            c = st.value
            if c.func.attr == "write" and len(c.args) == 1:
                toks.append("W:" + text_of(c.args[0], fn))
                continue
            if c.func.attr == "visit" and len(c.args) == 2 and isinstance(c.args[0], ast.Attribute) \
                    and isinstance(c.args[0].value, ast.Name) and c.args[0].value.id == "node" \
                    and isinstance(c.args[1], ast.Name) and c.args[1].id == "frame":
                toks.append("V:" + c.args[0].attr)
                continue
            if c.func.attr == "signature" and len(c.args) in (2, 3) and isinstance(c.args[0], ast.Name) and c.args[0].id == "node":
                toks.append("S")
                continue
        raise Untranslatable(f"{fn}: statement emits code in an unrecognised way: {ast.unparse(st)[:80]}")
    return toks


def table(src_root):
    path = os.path.join(src_root, "jinja2", "compiler.py")
    tree = ast.parse(open(path, encoding="utf-8").read(), path)
    cls = [n for n in tree.body if isinstance(n, ast.ClassDef) and n.name == "CodeGenerator"]
    if len(cls) != 1:
        raise Untranslatable("class CodeGenerator not found")
    funcs = {n.name: n for n in cls[0].body if isinstance(n, ast.FunctionDef)}
    out = {}
    for v in VISITORS:
        if v not in funcs:
            raise Untranslatable(f"{v} not found")
        fn = funcs[v]
        decos = [ast.unparse(d) for d in fn.decorator_list]
        if decos != ["optimizeconst"]:
            raise Untranslatable(f"{v}: decorators {decos}")
        rows = []
        for sb, asy, sl in itertools.product((False, True), repeat=3):
            env = {"sandboxed": sb, "async": asy, "slice": sl}
            used = set()
            rows.append(((sb, asy, sl), run(fn.body, env, v, used)))
        out[v] = rows
    return out


STORE_VISITORS = ("visit_Assign", "visit_AssignBlock")


def store_guards(src_root):
    """for every visitor that emits an assignment to node.target (which may be an attribute-style NSRef, compiled to a
    subscript store): does it write the `if not isinstance(<ref>, Namespace): raise` guard BEFORE visiting the target?"""
    path = os.path.join(src_root, "jinja2", "compiler.py")
    tree = ast.parse(open(path, encoding="utf-8").read(), path)
    cls = [n for n in tree.body if isinstance(n, ast.ClassDef) and n.name == "CodeGenerator"][0]
    funcs = {n.name: n for n in cls.body if isinstance(n, ast.FunctionDef)}
    # every visitor that visits node.target must be one of the known ones
    out = []
    for name, fn in funcs.items():
        visits = [n for n in ast.walk(fn) if isinstance(n, ast.Call) and isinstance(n.func, ast.Attribute) and n.func.attr == "visit"
                  and n.args and ast.unparse(n.args[0]) == "node.target"]
        if not visits:
            continue
        if name in ("visit_For", "visit_AsyncFor"):
            continue          # loop targets: parse_assign_target(extra_end_rules=..., name_only / tuple) never yields NSRef
        first_visit = min(v.lineno for v in visits)
        guard_lines = [n.lineno for n in ast.walk(fn) if isinstance(n, ast.Call) and isinstance(n.func, ast.Attribute)
                       and n.func.attr == "writeline" and n.args and "isinstance(" in ast.unparse(n.args[0])
                       and "Namespace" in ast.unparse(n.args[0])]
        raises = [n.lineno for n in ast.walk(fn) if isinstance(n, ast.Call) and isinstance(n.func, ast.Attribute)
                  and n.func.attr == "writeline" and n.args and "raise TemplateRuntimeError" in ast.unparse(n.args[0])]
        ok = bool(guard_lines) and bool(raises) and min(guard_lines) < first_visit and min(raises) < first_visit
        out.append((name, ok))
    if not out:
        raise Untranslatable("no visitor assigns to node.target")
    return out


def q(s):
    if any(ord(c) > 126 or ord(c) < 32 for c in s):
        raise Untranslatable(f"non-ASCII text {s!r}")
    return '"' + s.replace('"', '""') + '"'


def b(x):
    return "true" if x else "false"


def to_coq(tab):
    out = []
    for v, rows in tab.items():
        body = ";\n  ".join(f"(({b(sb)}, {b(asy)}, {b(sl)}), [{'; '.join(q(t) for t in toks)}])" for (sb, asy, sl), toks in rows)
        out.append(f"Definition gen_{v} : list ((bool * bool * bool) * list string) := [\n  {body}\n].")
    return "\n\n".join(out)


COQ = r'''(* regenerated from %(root)s/jinja2/compiler.py by gen/sbx_route.py — do not edit *)
From Coq Require Import List Bool String.
Import ListNotations.
From JV Require Import Model.SbxGen Model.SbxRoute.
Open Scope string_scope.

(* rows: ((sandboxed, async, arg-is-a-slice), emitted tokens) *)
%(table)s

(* what C17_codegen_no_raw_attr and C18_calls_gated rely on: under every (sandboxed, async, slice)
   condition the visitors emit exactly the tokens of the routing model Model/SbxRoute (the
   constructor [gen] chooses) *)
Theorem visit_Getattr_routes : table_ok gen_visit_Getattr (fun m _ => route_getattr m) = true.
Proof. vm_compute. reflexivity. Qed.
Theorem visit_Getitem_routes : table_ok gen_visit_Getitem route_getitem = true.
Proof. vm_compute. reflexivity. Qed.
Theorem visit_Call_routes : table_ok gen_visit_Call (fun m _ => route_call m) = true.
Proof. vm_compute. reflexivity. Qed.

(* every visitor that emits an assignment to node.target (possibly an attribute-style target, compiled to a subscript
   store on a template value) writes the "is a Namespace object" guard before the target *)
Definition gen_store_guards : list (string * bool) := [%(guards)s].
Theorem assignment_targets_guarded : forallb snd gen_store_guards = true /\ gen_store_guards <> [].
Proof. split; [vm_compute; reflexivity|discriminate]. Qed.
'''


def emit(src_root):
    guards = "; ".join(f"({q(n)}, {b(ok)})" for n, ok in store_guards(src_root))
    return COQ % {"root": src_root, "table": to_coq(table(src_root)), "guards": guards}


if __name__ == "__main__":
    import sys
    print(emit(sys.argv[1] if len(sys.argv) > 1 else "/repo/src"))
