"""T5 translator for runtime.new_context and environment.Template._get_default_module: turns the CURRENT
source of the two functions into terms of the deep embedding Lib/PyImp.v and emits the equations
interpreted term = reference result (Lib/PyImp.v proves the reference results equal to Model.Imp's
new_context / import_ctx / default_ctx).  Also pins the argument order of Template.new_context and
make_module.  Fail-closed: any construct outside the vocabulary raises Untranslatable."""
import ast
import os


class Untranslatable(Exception):
    pass


def q(s):
    return '"%s"' % s


def chain(n):
    parts = []
    while isinstance(n, ast.Attribute):
        parts.append(n.attr)
        n = n.value
    if isinstance(n, ast.Name):
        parts.append(n.id)
        return list(reversed(parts))
    return None


def is_none(n):
    return isinstance(n, ast.Constant) and n.value is None


def expr(n):
    if isinstance(n, ast.Name):
        return f"(EVar {q(n.id)})"
    if is_none(n):
        return "ENone"
    if isinstance(n, ast.Dict) and not n.keys:
        return "EEmptyDict"
    if isinstance(n, ast.Compare) and len(n.ops) == 1 and is_none(n.comparators[0]):
        if isinstance(n.ops[0], ast.Is):
            return f"(EIsNone {expr(n.left)})"
        if isinstance(n.ops[0], ast.IsNot):
            return f"(EIsNotNone {expr(n.left)})"
    if isinstance(n, ast.BoolOp) and isinstance(n.op, ast.Or) and len(n.values) == 2 \
            and isinstance(n.values[1], ast.Tuple) and not n.values[1].elts:
        return f"(EOrEmpty {expr(n.values[0])})"
    if isinstance(n, ast.Attribute):
        ch = chain(n)
        if ch == ["self", "environment", "is_async"]:
            return "EFlagAsync"
        if ch == ["self", "_module"]:
            return "ESelfModule"
    if isinstance(n, ast.BinOp) and isinstance(n.op, ast.Sub):
        l, r = n.left, n.right
        if isinstance(l, ast.Attribute) and l.attr == "globals_keys" and isinstance(l.value, ast.Name) \
                and isinstance(r, ast.Call) and not r.args and not r.keywords and chain(r.func) == ["self", "globals", "keys"]:
            return f"(EKeysDiff (EVar {q(l.value.id)}))"
    if isinstance(n, ast.DictComp) and len(n.generators) == 1:
        g = n.generators[0]
        if (isinstance(g.target, ast.Name) and isinstance(g.iter, ast.Name) and not g.ifs and not g.is_async
                and isinstance(n.key, ast.Name) and n.key.id == g.target.id
                and isinstance(n.value, ast.Subscript) and isinstance(n.value.slice, ast.Name)
                and n.value.slice.id == g.target.id and isinstance(n.value.value, ast.Attribute)
                and n.value.value.attr == "_globals" and isinstance(n.value.value.value, ast.Name)):
            return f"(EPick (EVar {q(g.iter.id)}) (EVar {q(n.value.value.value.id)}))"
    if isinstance(n, ast.Call):
        f = n.func
        if isinstance(f, ast.Name) and f.id == "dict":
            if len(n.args) == 1 and not n.keywords:
                return f"(EDictCopy {expr(n.args[0])})"
            if len(n.args) == 1 and len(n.keywords) == 1 and n.keywords[0].arg is None:
                return f"(EDictMerge {expr(n.args[0])} {expr(n.keywords[0].value)})"
        ch = chain(f) if isinstance(f, ast.Attribute) else None
        if ch == ["environment", "context_class"]:
            if [ast.unparse(a) for a in n.args] == ["environment", "parent", "template_name", "blocks"] \
                    and len(n.keywords) == 1 and n.keywords[0].arg == "globals":
                return f"(EMakeContext {expr(n.args[1])} {expr(n.keywords[0].value)})"
        if ch == ["self", "make_module"] and not n.keywords:
            if not n.args:
                return "(EMakeModule None)"
            if len(n.args) == 1:
                return f"(EMakeModule (Some {expr(n.args[0])}))"
    raise Untranslatable("expression " + ast.unparse(n)[:80])


def stmts(body):
    out = []
    for st in body:
        t = stmt(st)
        if t is not None:
            out.append(t)
    return "[" + "; ".join(out) + "]"


def overlay_loop(st):
    """for key, value in L.items(): if value is not missing: P[key] = value"""
    if not (isinstance(st.target, ast.Tuple) and len(st.target.elts) == 2 and all(isinstance(e, ast.Name) for e in st.target.elts)):
        return None
    k, v = (e.id for e in st.target.elts)
    it = st.iter
    if not (isinstance(it, ast.Call) and not it.args and isinstance(it.func, ast.Attribute) and it.func.attr == "items"
            and isinstance(it.func.value, ast.Name)) or st.orelse or len(st.body) != 1:
        return None
    c = st.body[0]
    if not (isinstance(c, ast.If) and not c.orelse and len(c.body) == 1 and isinstance(c.test, ast.Compare)
            and len(c.test.ops) == 1 and isinstance(c.test.ops[0], ast.IsNot)
            and isinstance(c.test.left, ast.Name) and c.test.left.id == v
            and isinstance(c.test.comparators[0], ast.Name) and c.test.comparators[0].id == "missing"):
        return None
    a = c.body[0]
    if not (isinstance(a, ast.Assign) and len(a.targets) == 1 and isinstance(a.targets[0], ast.Subscript)
            and isinstance(a.targets[0].value, ast.Name) and isinstance(a.targets[0].slice, ast.Name)
            and a.targets[0].slice.id == k and isinstance(a.value, ast.Name) and a.value.id == v):
        return None
    return f"(SOverlay {q(a.targets[0].value.id)} {q(it.func.value.id)})"


def stmt(st):
    if isinstance(st, ast.Expr) and isinstance(st.value, ast.Constant) and isinstance(st.value.value, str):
        return None
    if isinstance(st, ast.Assign) and len(st.targets) == 1:
        tg = st.targets[0]
        if isinstance(tg, ast.Name):
            return f"(SAssign {q(tg.id)} {expr(st.value)})"
        if chain(tg) == ["self", "_module"]:
            return f"(SSetSelfModule {expr(st.value)})"
    if isinstance(st, ast.If):
        return f"(SIf {expr(st.test)} {stmts(st.body)} {stmts(st.orelse)})"
    if isinstance(st, ast.For):
        t = overlay_loop(st)
        if t:
            return t
    if isinstance(st, ast.Return) and st.value is not None:
        return f"(SReturn {expr(st.value)})"
    if isinstance(st, ast.Raise) and isinstance(st.exc, ast.Call) and isinstance(st.exc.func, ast.Name) \
            and st.exc.func.id == "RuntimeError" and st.cause is None:
        return "SRaiseRuntime"
    raise Untranslatable("statement " + ast.unparse(st)[:80])


def translate(src_root):
    rt = ast.parse(open(os.path.join(src_root, "jinja2", "runtime.py")).read())
    fs = [n for n in rt.body if isinstance(n, ast.FunctionDef) and n.name == "new_context"]
    if len(fs) != 1:
        raise Untranslatable("runtime.new_context not found")
    nc = fs[0]
    if [a.arg for a in nc.args.args] != ["environment", "template_name", "blocks", "vars", "shared", "globals", "locals"] \
            or [ast.unparse(d) for d in nc.args.defaults] != ["None", "False", "None", "None"]:
        raise Untranslatable("new_context signature changed")
    env = ast.parse(open(os.path.join(src_root, "jinja2", "environment.py")).read())
    cls = [n for n in env.body if isinstance(n, ast.ClassDef) and n.name == "Template"]
    if len(cls) != 1:
        raise Untranslatable("class Template not found")
    funcs = {n.name: n for n in cls[0].body if isinstance(n, ast.FunctionDef)}
    for need in ("_get_default_module", "make_module", "new_context"):
        if need not in funcs:
            raise Untranslatable("Template." + need + " not found")
    gdm = funcs["_get_default_module"]
    if [a.arg for a in gdm.args.args] != ["self", "ctx"] or [ast.unparse(d) for d in gdm.args.defaults] != ["None"]:
        raise Untranslatable("_get_default_module signature changed")
    mm = ast.unparse(funcs["make_module"])
    for need in ("ctx = self.new_context(vars, shared, locals)", "return TemplateModule(self, ctx)"):
        if need not in mm:
            raise Untranslatable("make_module no longer contains: " + need)
    if [a.arg for a in funcs["make_module"].args.args] != ["self", "vars", "shared", "locals"] \
            or [ast.unparse(d) for d in funcs["make_module"].args.defaults] != ["None", "False", "None"]:
        raise Untranslatable("make_module signature changed")
    tn = ast.unparse(funcs["new_context"])
    if "return new_context(self.environment, self.name, self.blocks, vars, shared, self.globals, locals)" not in tn:
        raise Untranslatable("Template.new_context no longer forwards (vars, shared, self.globals, locals) in that order")
    return {"new_context": stmts(nc.body), "gdm": stmts(gdm.body)}


def dispatch_rules(src_root):
    """Environment.get_or_select_template as a decision list over the kind of its first argument"""
    env = ast.parse(open(os.path.join(src_root, "jinja2", "environment.py")).read())
    cls = [n for n in env.body if isinstance(n, ast.ClassDef) and n.name == "Environment"]
    fs = [n for n in cls[0].body if isinstance(n, ast.FunctionDef) and n.name == "get_or_select_template"] if cls else []
    if len(fs) != 1:
        raise Untranslatable("Environment.get_or_select_template not found")
    f = fs[0]
    arg = f.args.args[1].arg
    body = [st for st in f.body if not (isinstance(st, ast.Expr) and isinstance(st.value, ast.Constant))]

    def action(st):
        if not (isinstance(st, ast.Return) and st.value is not None):
            raise Untranslatable("get_or_select_template: not a return: " + ast.unparse(st)[:60])
        v = st.value
        if isinstance(v, ast.Name) and v.id == arg:
            return "AReturnIt"
        if isinstance(v, ast.Call) and isinstance(v.func, ast.Attribute) and isinstance(v.func.value, ast.Name) \
                and v.func.value.id == "self" and v.args and isinstance(v.args[0], ast.Name) and v.args[0].id == arg:
            if v.func.attr == "get_template":
                return "AGetTemplate"
            if v.func.attr == "select_template":
                return "ASelectTemplate"
        raise Untranslatable("get_or_select_template: action " + ast.unparse(v)[:60])

    def cond(test):
        if isinstance(test, ast.Call) and isinstance(test.func, ast.Name) and test.func.id == "isinstance" \
                and len(test.args) == 2 and isinstance(test.args[0], ast.Name) and test.args[0].id == arg:
            c = test.args[1]
            names = [c] if isinstance(c, ast.Name) else list(c.elts) if isinstance(c, ast.Tuple) else None
            if names and all(isinstance(n, ast.Name) for n in names):
                return "(CIsInstance [%s])" % "; ".join(q(n.id) for n in names)
        if isinstance(test, ast.Compare) and len(test.ops) == 1 and isinstance(test.ops[0], ast.Is) \
                and isinstance(test.left, ast.Call) and isinstance(test.left.func, ast.Name) and test.left.func.id == "type" \
                and len(test.left.args) == 1 and isinstance(test.left.args[0], ast.Name) and test.left.args[0].id == arg \
                and isinstance(test.comparators[0], ast.Name):
            return "(CTypeIs %s)" % q(test.comparators[0].id)
        raise Untranslatable("get_or_select_template: condition " + ast.unparse(test)[:60])

    rules = []

    def walk(stmts, top):
        for i, st in enumerate(stmts):
            if isinstance(st, ast.If):
                if len(st.body) != 1:
                    raise Untranslatable("get_or_select_template: branch with several statements")
                rules.append("(%s, %s)" % (cond(st.test), action(st.body[0])))
                if st.orelse:
                    d = walk(st.orelse, False)
                    if d is not None:
                        if i != len(stmts) - 1:
                            raise Untranslatable("get_or_select_template: statement after a final else")
                        return d
            else:
                if i != len(stmts) - 1:
                    raise Untranslatable("get_or_select_template: statement after return")
                return action(st)
        if top:
            raise Untranslatable("get_or_select_template: falls off the end")
        return None
    default = walk(body, True)
    return "[" + "; ".join(rules) + "]", default


COQ_DISPATCH = r'''(* regenerated from %(root)s/jinja2/environment.py by gen/imp_translate.py - do not edit *)
From Coq Require Import List Bool String.
Import ListNotations.
From JV Require Import Lib.PyImpDispatch.
Open Scope string_scope.
Definition rules : list (cond * action) := %(rules)s.
Definition default : action := %(default)s.
Theorem get_or_select_dispatch_eq_model :
  forallb (fun k => match dispatch rules default k, dispatch_model k with
                    | AGetTemplate, AGetTemplate | AReturnIt, AReturnIt | ASelectTemplate, ASelectTemplate => true
                    | _, _ => false end) all_kinds = true.
Proof. vm_compute. reflexivity. Qed.
Print Assumptions get_or_select_dispatch_eq_model.
'''


def emit_dispatch(src_root):
    rules, default = dispatch_rules(src_root)
    return COQ_DISPATCH % {"root": src_root, "rules": rules, "default": default}


COQ = r'''(* regenerated from %(root)s/jinja2/{runtime,environment}.py by gen/imp_translate.py — do not edit *)
From Coq Require Import List NArith Bool Arith String.
Import ListNotations.
From JV Require Import Model.Imp Lib.PyImp.
Open Scope string_scope.

Definition body_new_context : list stmt := %(new_context)s.
Definition body_gdm : list stmt := %(gdm)s.

Definition ov (o : option env) : value := match o with Some d => VDict d | None => VNone end.
Definition ol (o : option locals_t) : value := match o with Some l => VLocals l | None => VNone end.
Definition oc (o : option ctx) : value := match o with Some c => VCtxArg c | None => VNone end.
Definition to_gdm (f : flow) : option gdm :=
  match f with
  | Ret (VModule m) cell => Some (GModule m cell)
  | RaiseRuntime => Some GRuntimeError
  | RaiseKey => Some GKeyError
  | _ => None
  end.

Ltac crunch :=
  repeat (cbn [execs exec eval bind env_get String.eqb Ascii.eqb Bool.eqb truthy ov ol oc to_gdm] in *;
          match goal with
          | |- context [match ?x with _ => _ end] =>
              match x with
              | context [match _ with _ => _ end] => fail 1
              | _ => destruct x eqn:?
              end
          | |- context [if ?x then _ else _] =>
              match x with
              | context [match _ with _ => _ end] => fail 1
              | _ => destruct x eqn:?
              end
          end);
  cbn [execs exec eval bind env_get String.eqb Ascii.eqb Bool.eqb truthy ov ol oc to_gdm] in *;
  try reflexivity; try congruence.

Theorem new_context_source_eq_ref : forall (sg : env) (a : bool) (vars : option env) (shared : bool)
    (globals : option env) (locals : option locals_t) (cell : option modv),
  execs sg a body_new_context
    [("vars", ov vars); ("shared", VBool shared); ("globals", ov globals); ("locals", ol locals)] cell
  = Ret (VNewCtx (new_context_ref vars shared globals locals)) cell.
Proof.
  intros sg a vars shared globals locals cell. unfold body_new_context, new_context_ref.
  destruct vars as [v|]; destruct shared; destruct globals as [[|g0 gr]|]; destruct locals as [[|l0 lr]|]; crunch.
Qed.

Theorem gdm_source_eq_ref : forall (sg : env) (a : bool) (c : option ctx) (cell : option modv),
  to_gdm (execs sg a body_gdm [("ctx", oc c)] cell) = Some (gdm_ref sg a c cell).
Proof.
  intros sg a c cell. unfold body_gdm, gdm_ref.
  destruct a; destruct c as [c|]; destruct cell as [m|]; crunch.
Qed.

Print Assumptions new_context_source_eq_ref.
Print Assumptions gdm_source_eq_ref.
'''


def emit(src_root):
    d = translate(src_root)
    d["root"] = src_root
    return COQ % d


if __name__ == "__main__":
    import sys
    print(emit(sys.argv[1] if len(sys.argv) > 1 else "/repo/src"))
