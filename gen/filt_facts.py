"""Translators for the filter-contract checks (python `ast` over $VERIF_REPO/src/jinja2/filters.py,
fail-closed: an unrecognised shape raises TranslatorError).

T3  write footprint of the collection filters: every augmented assignment, subscript /
    attribute store, `del`, and call of a known mutator method, with the root of the access
    path classified as parameter-rooted or fresh by a sequential alias walk.
    Also the flag `sum_aug`: async do_sum accumulates with an augmented assignment on a name
    bound directly to its `start` parameter.
T2  caught exception class names of do_int / do_float (used by C23).
"""
import ast
import os
import sys

MUTATORS = {"append", "extend", "update", "pop", "sort", "reverse", "clear", "insert", "remove",
            "setdefault", "add", "discard", "popleft", "appendleft", "rotate", "popitem"}
STAR_FRESH = {"args", "kwargs"}


class TranslatorError(Exception):
    pass


def _src(repo):
    p = os.path.join(repo, "src", "jinja2", "filters.py")
    return ast.parse(open(p).read(), p)


def _functions(tree):
    out = {}
    def walk(body, top):
        for n in body:
            if isinstance(n, (ast.FunctionDef, ast.AsyncFunctionDef)):
                if top:
                    out[n.name] = n          # the last definition wins (typing.overload stubs come first)
                else:
                    out.setdefault(n.name, n)
                walk(n.body, False)
            elif isinstance(n, (ast.If, ast.Try, ast.ClassDef, ast.For, ast.With)):
                walk(getattr(n, "body", []), top)
    walk(tree.body, True)
    return out


def _root(e):
    while isinstance(e, (ast.Attribute, ast.Subscript)):
        e = e.value
    return e.id if isinstance(e, ast.Name) else None


def _fresh(e):
    """does evaluating e create a new object (or an immutable one)?"""
    if isinstance(e, (ast.List, ast.Dict, ast.Set, ast.ListComp, ast.DictComp, ast.SetComp, ast.Constant,
                      ast.GeneratorExp, ast.BinOp, ast.Compare, ast.BoolOp, ast.UnaryOp, ast.JoinedStr,
                      ast.Tuple, ast.Lambda, ast.IfExp, ast.Await)):
        return True
    if isinstance(e, ast.Call):
        return True          # list(x), sorted(x), x.copy(), make_attrgetter(...) ...
    if isinstance(e, ast.Subscript) and isinstance(e.slice, ast.Slice):
        return True          # seq[a:b] copies
    return False


def footprint(fn):
    """sequential walk; returns [(lineno, description, root_is_parameter)]"""
    params = [a.arg for a in fn.args.posonlyargs + fn.args.args + fn.args.kwonlyargs]
    rooted = {p for p in params if p not in STAR_FRESH}
    sites = []

    def visit(stmts):
        for s in stmts:
            if isinstance(s, (ast.FunctionDef, ast.AsyncFunctionDef, ast.ClassDef)):
                continue     # closures are separate functions of the table
            if isinstance(s, ast.Assign):
                scan_expr(s.value)
                for t in s.targets:
                    if isinstance(t, ast.Name):
                        if isinstance(s.value, ast.Name) and s.value.id in rooted:
                            rooted.add(t.id)
                        elif _fresh(s.value):
                            rooted.discard(t.id)
                        elif isinstance(s.value, (ast.Attribute, ast.Subscript, ast.Name)):
                            r = _root(s.value)
                            (rooted.add if r in rooted else rooted.discard)(t.id)
                        else:
                            raise TranslatorError(f"{fn.name}:{s.lineno}: unrecognised assignment value {ast.dump(s.value)[:60]}")
                    elif isinstance(t, (ast.Subscript, ast.Attribute)):
                        r = _root(t)
                        sites.append((s.lineno, f"store {ast.unparse(t)}", r in rooted))
                    elif isinstance(t, (ast.Tuple, ast.List)):
                        for el in t.elts:
                            if isinstance(el, ast.Name):
                                rooted.discard(el.id)
                    else:
                        raise TranslatorError(f"{fn.name}:{s.lineno}: target")
            elif isinstance(s, ast.AnnAssign):
                if s.value is not None:
                    scan_expr(s.value)
                if isinstance(s.target, ast.Name) and s.value is not None:
                    if isinstance(s.value, ast.Name) and s.value.id in rooted:
                        rooted.add(s.target.id)
                    else:
                        rooted.discard(s.target.id)
            elif isinstance(s, ast.AugAssign):
                scan_expr(s.value)
                r = _root(s.target)
                sites.append((s.lineno, f"augassign {ast.unparse(s.target)}", r in rooted))
            elif isinstance(s, ast.Delete):
                for t in s.targets:
                    if not isinstance(t, ast.Name):
                        sites.append((s.lineno, f"del {ast.unparse(t)}", _root(t) in rooted))
            elif isinstance(s, (ast.For, ast.AsyncFor)):
                scan_expr(s.iter)
                for n in ast.walk(s.target):
                    if isinstance(n, ast.Name):
                        rooted.discard(n.id)     # loop items are the caller's elements, not arguments
                visit(s.body)
                visit(s.orelse)
            elif isinstance(s, ast.While):
                scan_expr(s.test)
                visit(s.body)
                visit(s.orelse)
            elif isinstance(s, ast.If):
                scan_expr(s.test)
                visit(s.body)
                visit(s.orelse)
            elif isinstance(s, ast.Try):
                visit(s.body)
                for h in s.handlers:
                    visit(h.body)
                visit(s.orelse)
                visit(s.finalbody)
            elif isinstance(s, (ast.With, ast.AsyncWith)):
                visit(s.body)
            elif isinstance(s, (ast.Expr, ast.Return)):
                if s.value is not None:
                    scan_expr(s.value)
            elif isinstance(s, (ast.Raise, ast.Pass, ast.Break, ast.Continue, ast.Import, ast.ImportFrom,
                                ast.Nonlocal, ast.Global, ast.Assert)):
                pass
            else:
                raise TranslatorError(f"{fn.name}:{s.lineno}: unrecognised statement {type(s).__name__}")

    def scan_expr(e):
        for n in ast.walk(e):
            if isinstance(n, ast.Call) and isinstance(n.func, ast.Attribute) and n.func.attr in MUTATORS:
                r = _root(n.func.value)
                sites.append((n.lineno, f"call {ast.unparse(n.func)}", r in rooted))

    visit(fn.body)
    return sites


COLLECTION_FUNCS = [
    "sync_do_slice", "do_slice", "do_batch", "sync_do_unique", "do_unique", "sync_do_groupby", "do_groupby",
    "do_sort", "do_dictsort", "_min_or_max", "do_min", "do_max", "sync_do_sum", "do_sum", "sync_do_join",
    "do_join", "sync_do_first", "do_first", "do_last", "do_reverse", "sync_do_list", "do_list",
    "sync_do_map", "do_map", "select_or_reject", "async_select_or_reject", "prepare_select_or_reject",
    "make_attrgetter", "make_multi_attrgetter", "_prepare_attribute_parts", "ignore_case", "attrgetter",
]


def collection_footprint(repo):
    fns = _functions(_src(repo))
    rows = []
    for name in COLLECTION_FUNCS:
        if name not in fns:
            raise TranslatorError(f"function {name} not found in filters.py")
        for ln, what, is_param in footprint(fns[name]):
            rows.append((name, ln, what, is_param))
    return rows


def sum_aug(repo):
    fn = _functions(_src(repo)).get("do_sum")
    if fn is None or not isinstance(fn, ast.AsyncFunctionDef):
        raise TranslatorError("async do_sum not found")
    aliases = set()
    for n in ast.walk(fn):
        if isinstance(n, ast.Assign) and isinstance(n.value, ast.Name) and n.value.id == "start":
            aliases |= {t.id for t in n.targets if isinstance(t, ast.Name)}
    aliases.add("start")
    return any(isinstance(n, ast.AugAssign) and isinstance(n.target, ast.Name) and n.target.id in aliases
               for n in ast.walk(fn))


def caught_classes(repo, fname):
    """T2: names of the exception classes caught inside function `fname`, one tuple per handler."""
    fn = _functions(_src(repo)).get(fname)
    if fn is None:
        raise TranslatorError(f"function {fname} not found")
    out = []
    for n in ast.walk(fn):
        if isinstance(n, ast.Try):
            for h in n.handlers:
                if h.type is None:
                    out.append(("BaseException",))
                elif isinstance(h.type, ast.Name):
                    out.append((h.type.id,))
                elif isinstance(h.type, ast.Tuple) and all(isinstance(e, ast.Name) for e in h.type.elts):
                    out.append(tuple(e.id for e in h.type.elts))
                else:
                    raise TranslatorError(f"{fname}: unrecognised except clause")
    return out


def coq_string(s):
    return '"' + s.replace('"', '""') + '"'


def emit_c22(repo):
    rows = collection_footprint(repo)
    aug = sum_aug(repo)
    lines = ["(* generated by gen/filt_facts.py from filters.py — do not edit *)",
             "From Coq Require Import List String Bool.", "Import ListNotations.", "Open Scope string_scope.",
             "(* function, line, mutation site, root of the access path is a parameter *)",
             "Definition mutations : list (string * nat * string * bool) := ["]
    lines.append(";\n".join(f"  ({coq_string(f)}, {ln}%nat, {coq_string(w)}, {'true' if p else 'false'})" for f, ln, w, p in rows))
    lines.append("].")
    lines.append(f"Definition sum_aug : bool := {'true' if aug else 'false'}.")
    return "\n".join(lines) + "\n", rows, aug


if __name__ == "__main__":
    repo = sys.argv[1] if len(sys.argv) > 1 else os.environ.get("VERIF_REPO", "/repo")
    text, rows, aug = emit_c22(repo)
    print(text)
    print("(* int:", caught_classes(repo, "do_int"), "float:", caught_classes(repo, "do_float"), "*)")
