"""T1 translator for the sandbox properties (C17, C18, C19).

Regenerates from $VERIF_REPO/src/jinja2/sandbox.py (python ``ast``; fail-closed):

  * the ORDERED ``_mutable_spec`` tuple: (type expression text, list of method names) per row
  * ``UNSAFE_FUNCTION/METHOD/GENERATOR/COROUTINE/ASYNC_GENERATOR_ATTRIBUTES``
  * shape facts: the bodies of ``modifies_known_mutable``, ``is_internal_attribute``,
    ``SandboxedEnvironment.is_safe_attribute / is_safe_callable / call / getattr / getitem``,
    ``ImmutableSandboxedEnvironment.is_safe_attribute`` and ``SandboxedFormatter.get_field``
    must have the normalised ``ast.dump`` the Gallina models were written against
    (docstrings and annotations dropped).  A different shape is a broken obligation (the
    behavioural correspondence of the same run then says whether anything observable changed).

and, dumped from the running interpreter (with jinja2 imported from the same tree):

  * ``isinstance(T(), rowtype)`` for the four exact builtin types x every row
  * the public attribute names ``dir(T)`` of list / dict / set / deque

``to_coq`` emits the Coq text of the facts.
"""
from __future__ import annotations

import ast
import os

BTYPES = [("TList", "list"), ("TDict", "dict"), ("TSet", "set"), ("TDeque", "deque")]
UNSAFE_NAMES = [
    ("t_function", "UNSAFE_FUNCTION_ATTRIBUTES"),
    ("t_method", "UNSAFE_METHOD_ATTRIBUTES"),
    ("t_generator", "UNSAFE_GENERATOR_ATTRIBUTES"),
    ("t_coroutine", "UNSAFE_COROUTINE_ATTRIBUTES"),
    ("t_asyncgen", "UNSAFE_ASYNC_GENERATOR_ATTRIBUTES"),
]


class TranslatorError(Exception):
    pass


def _str_collection(node, what):
    """set() | {..} | [..] | frozenset([..]) | set([..]) of string constants -> list of str (source order)"""
    if isinstance(node, ast.Call) and isinstance(node.func, ast.Name) and node.func.id in ("set", "frozenset") and not node.keywords:
        if not node.args:
            return []
        if len(node.args) == 1:
            return _str_collection(node.args[0], what)
    if isinstance(node, (ast.Set, ast.List, ast.Tuple)):
        out = []
        for e in node.elts:
            if not (isinstance(e, ast.Constant) and isinstance(e.value, str)):
                raise TranslatorError(f"{what}: element is not a string constant: {ast.dump(e)[:80]}")
            out.append(e.value)
        return out
    raise TranslatorError(f"{what}: unrecognised collection shape {ast.dump(node)[:100]}")


def _module_assign(tree, name):
    found = None
    for n in tree.body:
        if isinstance(n, ast.Assign) and len(n.targets) == 1 and isinstance(n.targets[0], ast.Name) and n.targets[0].id == name:
            found = n.value
        elif isinstance(n, ast.AnnAssign) and isinstance(n.target, ast.Name) and n.target.id == name and n.value is not None:
            found = n.value
        elif isinstance(n, (ast.AugAssign,)) and isinstance(n.target, ast.Name) and n.target.id == name:
            raise TranslatorError(f"{name} is modified by an augmented assignment (line {n.lineno})")
    if found is None:
        raise TranslatorError(f"module-level assignment of {name} not found")
    return found


def _strip(fn):
    """function body without docstring / annotations / comments, as a canonical dump"""
    fn = ast.parse(ast.unparse(fn)).body[0]
    body = fn.body
    if body and isinstance(body[0], ast.Expr) and isinstance(body[0].value, ast.Constant) and isinstance(body[0].value.value, str):
        body = body[1:]
    for n in ast.walk(fn):
        if isinstance(n, ast.arg):
            n.annotation = None
        if isinstance(n, ast.AnnAssign):
            n.annotation = ast.Name("A", ast.Load())
    args = ast.dump(fn.args)
    return args + "\n" + "\n".join(ast.unparse(s) for s in body)


def _find_fn(tree, qual):
    parts = qual.split(".")
    body = tree.body
    node = None
    for p in parts:
        node = None
        for n in body:
            if isinstance(n, (ast.FunctionDef, ast.AsyncFunctionDef, ast.ClassDef)) and n.name == p:
                node = n
        if node is None:
            raise TranslatorError(f"{qual} not found")
        body = node.body
    return node


def shape_texts(tree):
    out = {}
    for q in ("modifies_known_mutable", "is_internal_attribute",
              "SandboxedEnvironment.is_safe_attribute", "SandboxedEnvironment.is_safe_callable",
              "SandboxedEnvironment.getitem", "SandboxedEnvironment.getattr",
              "SandboxedEnvironment.unsafe_undefined", "SandboxedEnvironment.wrap_str_format",
              "SandboxedEnvironment.call", "ImmutableSandboxedEnvironment.is_safe_attribute",
              "SandboxedFormatter.get_field"):
        out[q] = _strip(_find_fn(tree, q))
    return out


def read_source(src_dir):
    path = os.path.join(src_dir, "jinja2", "sandbox.py")
    tree = ast.parse(open(path, encoding="utf-8").read(), path)
    facts = {"unsafe": {}, "rows": []}
    for field, name in UNSAFE_NAMES:
        facts["unsafe"][field] = _str_collection(_module_assign(tree, name), name)
    spec = _module_assign(tree, "_mutable_spec")
    if not isinstance(spec, ast.Tuple):
        raise TranslatorError("_mutable_spec is not a tuple display")
    for i, r in enumerate(spec.elts):
        if not (isinstance(r, ast.Tuple) and len(r.elts) == 2):
            raise TranslatorError(f"_mutable_spec row {i} is not a pair")
        texpr, names = r.elts
        if not isinstance(texpr, (ast.Name, ast.Attribute)):
            raise TranslatorError(f"_mutable_spec row {i}: type expression {ast.dump(texpr)[:60]}")
        facts["rows"].append({"type": ast.unparse(texpr), "attrs": _str_collection(names, f"_mutable_spec row {i}")})
    # _mutable_spec / UNSAFE_* must not be touched anywhere else in the module
    watched = {"_mutable_spec"} | {n for _, n in UNSAFE_NAMES}
    for n in ast.walk(tree):
        if isinstance(n, ast.Call) and isinstance(n.func, ast.Attribute) and isinstance(n.func.value, ast.Name) \
                and n.func.value.id in watched and n.func.attr in ("add", "update", "discard", "remove", "clear", "pop"):
            raise TranslatorError(f"{n.func.value.id}.{n.func.attr}(...) at line {n.lineno} modifies a table after its definition")
    facts["shapes"] = shape_texts(tree)
    return facts


def runtime_facts(facts):
    """needs jinja2 importable from the same tree (harness: lib.use_repo_jinja())"""
    import collections
    import jinja2.sandbox as sb
    ns = dict(vars(sb))
    types_ = {"list": list, "dict": dict, "set": set, "deque": collections.deque}
    for r in facts["rows"]:
        rt = eval(r["type"], ns)  # noqa: S307 - expression restricted to Name/Attribute by read_source
        r["inst"] = [c for c, py in BTYPES if isinstance(types_[py](), rt)]
    facts["public"] = {c: [n for n in dir(types_[py]) if not n.startswith("_")] for c, py in BTYPES}
    # operator / protocol methods: reachable from a template as stored method-wrapper references only
    facts["dunder"] = {c: [n for n in dir(types_[py]) if n.startswith("__") and n.endswith("__") and callable(getattr(types_[py], n, None))]
                       for c, py in BTYPES}
    # the table object the running module really uses must be the one read from the source text
    live = [(t, sorted(s)) for t, s in sb._mutable_spec]
    src = [(eval(r["type"], ns), sorted(set(r["attrs"]))) for r in facts["rows"]]  # noqa: S307
    facts["live_table_matches_source"] = live == src
    for field, name in UNSAFE_NAMES:
        if sorted(getattr(sb, name)) != sorted(set(facts["unsafe"][field])):
            facts["live_table_matches_source"] = False
    return facts


def coq_string(s):
    if any(ord(c) > 126 or ord(c) < 32 for c in s):
        raise TranslatorError(f"non-ASCII name {s!r} in a table")
    return '"' + s.replace('"', '""') + '"'


def coq_list(xs):
    return "[" + "; ".join(coq_string(x) for x in xs) + "]"


def tables_to_coq(facts):
    u = facts["unsafe"]
    return ("Definition gen_tables : tables := mkTables\n  " +
            "\n  ".join(coq_list(u[f]) for f, _ in UNSAFE_NAMES) + ".")


def spec_to_coq(facts):
    rows = []
    for r in facts["rows"]:
        rows.append(f"  mkRow {coq_string(r['type'])} [{'; '.join(r['inst'])}] {coq_list(r['attrs'])}")
    pub = "\n".join(f"  | {c} => {coq_list(facts['public'][c])}" for c, _ in BTYPES)
    dun = "\n".join(f"  | {c} => {coq_list(facts.get('dunder', {}).get(c, []))}" for c, _ in BTYPES)
    return ("Definition gen_spec : list row := [\n" + ";\n".join(rows) + "\n].\n\n"
            "Definition gen_public (T : btype) : list string :=\n  match T with\n" + pub + "\n  end.\n\n"
            "(* every callable dunder name of the type in the running interpreter *)\n"
            "Definition gen_dunder (T : btype) : list string :=\n  match T with\n" + dun + "\n  end.\n\n"
            "Definition gen_names (T : btype) : list string := gen_public T ++ gen_dunder T.")


COMPILER_FUNCS = ("CodeGenerator.visit_Call", "CodeGenerator.visit_Getattr", "CodeGenerator.visit_Getitem")


def compiler_shapes(src_dir):
    """canonical text of the routing visitors of compiler.py (modelled by Model/SbxGen.gen)"""
    path = os.path.join(src_dir, "jinja2", "compiler.py")
    tree = ast.parse(open(path, encoding="utf-8").read(), path)
    out = {}
    for q in COMPILER_FUNCS:
        try:
            out[q] = _strip(_find_fn(tree, q))
        except TranslatorError:
            raise TranslatorError(f"{q} not found in compiler.py") from None
    return out


def compiler_shape_mismatches(src_dir, names=COMPILER_FUNCS):
    from .sbx_shapes import EXPECTED_COMPILER
    got = compiler_shapes(src_dir)
    return [q for q in names if got.get(q) != EXPECTED_COMPILER.get(q)]


FILTERS_FUNCS = ("make_multi_attrgetter",)


def filters_shapes(src_dir):
    path = os.path.join(src_dir, "jinja2", "filters.py")
    tree = ast.parse(open(path, encoding="utf-8").read(), path)
    return {q: ast.unparse(_find_fn(tree, q)) for q in FILTERS_FUNCS}


def filters_shape_mismatches(src_dir):
    from .sbx_shapes import EXPECTED_FILTERS
    got = filters_shapes(src_dir)
    import re
    norm = lambda t: re.sub(r'"""(.|\n)*?"""', "", t)   # noqa: E731 - docstrings dropped
    return [q for q in FILTERS_FUNCS if norm(got.get(q, "")) != norm(EXPECTED_FILTERS.get(q, ""))]


NODES_FUNCS = ("Getattr.as_const", "Getitem.as_const")


def nodes_shapes(src_dir):
    """canonical text of the constant-folding entry points of nodes.py (modelled by Model/SbxFold.as_const)"""
    path = os.path.join(src_dir, "jinja2", "nodes.py")
    tree = ast.parse(open(path, encoding="utf-8").read(), path)
    return {q: _strip(_find_fn(tree, q)) for q in NODES_FUNCS}


def nodes_shape_mismatches(src_dir):
    from .sbx_shapes import EXPECTED_NODES
    got = nodes_shapes(src_dir)
    return [q for q in NODES_FUNCS if got.get(q) != EXPECTED_NODES.get(q)]


def shape_mismatches(facts):
    """names of modelled functions whose canonical text differs from the one the models follow"""
    from .sbx_shapes import EXPECTED
    return [q for q in sorted(EXPECTED) if facts["shapes"].get(q) != EXPECTED[q]]


def dump_shapes(src_dir):
    import pprint
    facts = read_source(src_dir)
    here = os.path.join(os.path.dirname(os.path.abspath(__file__)), "sbx_shapes.py")
    head = open(here).read().split("EXPECTED = ")[0]
    with open(here, "w") as f:
        f.write(head + "EXPECTED = " + pprint.pformat(facts["shapes"], width=120) + "\n")
        f.write("EXPECTED_COMPILER = " + pprint.pformat(compiler_shapes(src_dir), width=120) + "\n")
        f.write("EXPECTED_NODES = " + pprint.pformat(nodes_shapes(src_dir), width=120) + "\n")
        f.write("EXPECTED_FILTERS = " + pprint.pformat(filters_shapes(src_dir), width=120) + "\n")
