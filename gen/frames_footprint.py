"""T3 — write footprint of the render path (C29 / C37).

`ast` scan of runtime.py, environment.py, filters.py, tests.py, async_utils.py, utils.py for every
place that can modify an existing object:

    store    x.a = v      x[k] = v      del x.a      del x[k]          (also as tuple targets)
    aug      x.a += v     x[k] += v     x += v   (in-place for lists / dicts / sets)
    call     x.append(..) and the other known mutator methods

For each the root name of the access path is classified inside its function by a small
flow-insensitive alias analysis:

    self          the method's first parameter (with the class name)
    param:<name>  a parameter of the function, or a local that was assigned a parameter, an
                  attribute / item of a parameter, or a call of `.setdefault/.get/...` on one (alias)
    fresh         a local bound only to literals, comprehensions, constructor / function call
                  results, arithmetic (a new object the function owns)
    global:<name> a module-level name
    unknown       anything else (treated like a parameter by the obligation)

A plain rebinding `x = ...` or `x += ...` of a name whose every binding is an int / str / float
literal or arithmetic is not a write.  Fail-closed: a store target shape that is not recognised
raises TranslatorError.
"""
from __future__ import annotations

import ast
import os

MODULES = ["runtime", "environment", "filters", "tests", "async_utils", "utils"]
MUTATORS = {"append", "extend", "update", "pop", "sort", "reverse", "clear", "insert", "remove", "setdefault", "add",
            "discard", "popleft", "appendleft", "rotate", "popitem", "difference_update", "intersection_update",
            "symmetric_difference_update", "extendleft", "__setitem__", "__delitem__"}
FRESH_CALLS = {"list", "dict", "set", "tuple", "sorted", "deque", "frozenset", "str", "int", "float", "bool", "range", "map", "filter",
               "zip", "enumerate", "reversed", "iter", "object", "type", "len", "sum", "min", "max", "abs", "round", "repr",
               "Markup", "Namespace", "LRUCache", "defaultdict", "OrderedDict", "copy", "deepcopy", "partial", "chain", "groupby",
               "islice", "getattr", "next", "isinstance", "id", "super", "cls", "compile"}


class TranslatorError(Exception):
    pass


def _root(node):
    """(root Name node or None, first attribute/subscript step text) of an access path"""
    first = None
    while True:
        if isinstance(node, ast.Attribute):
            first = "." + node.attr
            node = node.value
        elif isinstance(node, ast.Subscript):
            first = "[]"
            node = node.value
        elif isinstance(node, ast.Starred):
            node = node.value
        elif isinstance(node, ast.Call):
            # e.g. f(x).attr = v : the object is a call result
            return None, "call"
        else:
            break
    if isinstance(node, ast.Name):
        return node, first
    return None, first


class FnScan:
    def __init__(self, module, qual, fn, cls, module_globals, outer=None):
        self.module, self.qual, self.fn, self.cls = module, qual, fn, cls
        self.outer = outer           # the enclosing function's scan: free names of a nested function are its locals
        self.module_globals = module_globals
        a = fn.args
        self.params = [x.arg for x in a.posonlyargs + a.args + a.kwonlyargs]
        self.starparams = set()
        if a.vararg:
            self.params.append(a.vararg.arg)
            self.starparams.add(a.vararg.arg)
        if a.kwarg:
            self.params.append(a.kwarg.arg)
            self.starparams.add(a.kwarg.arg)
        self.selfname = self.params[0] if (cls and self.params and not any(
            isinstance(d, ast.Name) and d.id == "staticmethod" for d in fn.decorator_list)) else None
        if self.selfname and any(isinstance(d, ast.Name) and d.id == "classmethod" for d in fn.decorator_list):
            self.selfname = None
        self.bind = {}       # local name -> set of classes of its bindings
        self._resolving = set()
        self.own_nodes = self._own_nodes()
        self._collect_bindings()

    def _own_nodes(self):
        out = []
        stack = list(self.fn.body)
        while stack:
            n = stack.pop()
            if isinstance(n, (ast.FunctionDef, ast.AsyncFunctionDef, ast.ClassDef, ast.Lambda)):
                continue
            out.append(n)
            for c in ast.iter_child_nodes(n):
                if isinstance(c, (ast.FunctionDef, ast.AsyncFunctionDef, ast.ClassDef, ast.Lambda)):
                    continue
                stack.append(c)
        return out

    # ---- classification of expressions
    def expr_class(self, e, depth=0):
        if e is None or depth > 12:
            return "unknown"
        if isinstance(e, (ast.Constant, ast.JoinedStr, ast.List, ast.Dict, ast.Set, ast.Tuple, ast.ListComp, ast.DictComp,
                          ast.SetComp, ast.GeneratorExp, ast.BinOp, ast.UnaryOp, ast.Compare, ast.BoolOp, ast.Lambda)):
            if isinstance(e, ast.BoolOp):
                cs = {self.expr_class(v, depth + 1) for v in e.values}
                cs.discard("fresh")
                return sorted(cs)[0] if cs else "fresh"
            return "fresh"
        if isinstance(e, ast.IfExp):
            cs = {self.expr_class(e.body, depth + 1), self.expr_class(e.orelse, depth + 1)}
            cs.discard("fresh")
            return sorted(cs)[0] if cs else "fresh"
        if isinstance(e, ast.Await):
            return self.expr_class(e.value, depth + 1)
        if isinstance(e, ast.Name):
            return self.name_class(e.id, depth + 1)
        if isinstance(e, (ast.Attribute, ast.Subscript)):
            r, _ = _root(e)
            if r is None:
                return "unknown"
            c = self.name_class(r.id, depth + 1)
            return c if c != "fresh" else "fresh"
        if isinstance(e, ast.Call):
            f = e.func
            if isinstance(f, ast.Name):
                return "fresh"          # a function / constructor result is a new object for our purposes
            if isinstance(f, ast.Attribute):
                if f.attr in ("copy", "derived", "overlay", "new_context", "get_all", "items", "keys", "values", "split", "join",
                              "format", "undefined", "make_module", "make_module_async", "__new__"):
                    return "fresh"
                if f.attr in ("setdefault", "get", "pop", "__getitem__"):
                    return self.expr_class(f.value, depth + 1)      # hands out an element of the receiver
                return "fresh"
            return "unknown"
        if isinstance(e, ast.NamedExpr):
            return self.expr_class(e.value, depth + 1)
        return "unknown"

    def name_class(self, name, depth=0):
        if self.selfname and name == self.selfname:
            return "self"
        if name == "missing":
            return "fresh"              # the engine's sentinel singleton: never written through
        if name in self.bind and depth <= 12:
            if name in self._resolving:
                return "fresh"          # a binding in terms of itself (x = x[1:]) adds nothing
            self._resolving.add(name)
            try:
                cs = set()
                for b in self.bind[name]:
                    cs.add(b if isinstance(b, str) else self.expr_class(b, depth + 1))
            finally:
                self._resolving.discard(name)
            if name in self.params and name not in self.starparams:
                cs.add("param:" + name)
            nonfresh = sorted(c for c in cs if c != "fresh")
            return nonfresh[0] if nonfresh else "fresh"
        if name in self.starparams:
            return "fresh"
        if name in self.params:
            return "param:" + name
        if self.outer is not None:
            c = self.outer.name_class(name, depth + 1)
            if c != "unknown":
                return c
        if name in self.module_globals:
            return "global:" + name
        return "unknown"

    def _bind_target(self, tgt, value):
        if isinstance(tgt, ast.Name):
            self.bind.setdefault(tgt.id, []).append(value)
            self.bind_at.setdefault(tgt.id, []).append((self._cur_stmt, value))
        elif isinstance(tgt, (ast.Tuple, ast.List)):
            for el in tgt.elts:
                self._bind_target(el, "elem" if value is None else _Elem(value))
        elif isinstance(tgt, ast.Starred):
            self._bind_target(tgt.value, value)

    def _collect_bindings(self):
        self.bind_at = {}
        self.parent = {}
        for n in [self.fn] + self.own_nodes:
            for c in ast.iter_child_nodes(n):
                self.parent.setdefault(c, n)
        for n in self.own_nodes:
            self._cur_stmt = n
            if isinstance(n, ast.Import) or isinstance(n, ast.ImportFrom):
                for a in n.names:
                    self.bind.setdefault((a.asname or a.name).split(".")[0], []).append("global:" + (a.asname or a.name))
                continue
            if isinstance(n, ast.Assign):
                for t in n.targets:
                    self._bind_target(t, n.value)
            elif isinstance(n, ast.AnnAssign) and n.value is not None:
                self._bind_target(n.target, n.value)
            elif isinstance(n, (ast.For, ast.AsyncFor)):
                self._bind_target(n.target, _Elem(n.iter))
            elif isinstance(n, ast.comprehension):
                self._bind_target(n.target, _Elem(n.iter))
            elif isinstance(n, (ast.With, ast.AsyncWith)):
                for it in n.items:
                    if it.optional_vars is not None:
                        self._bind_target(it.optional_vars, it.context_expr)
            elif isinstance(n, ast.NamedExpr):
                self._bind_target(n.target, n.value)
            elif isinstance(n, ast.ExceptHandler) and n.name:
                self.bind.setdefault(n.name, []).append("fresh")
        # _Elem(x): an element of x has x's class
        for k, vs in self.bind.items():
            self.bind[k] = [_unwrap(v) for v in vs]
        for k, vs in self.bind_at.items():
            self.bind_at[k] = [(st, _unwrap(v)) for st, v in vs]

    def _block_of(self, stmt):
        """(holder node, field name) of the statement list that contains stmt"""
        p = self.parent.get(stmt)
        while p is not None and not isinstance(stmt, ast.stmt):
            stmt, p = p, self.parent.get(p)
        if p is None:
            return None
        for fld in ("body", "orelse", "finalbody", "handlers"):
            lst = getattr(p, fld, None)
            if isinstance(lst, list) and stmt in lst:
                return (p, fld)
        return None

    def _ancestors_blocks(self, node):
        out = []
        cur = node
        while cur is not None and cur is not self.fn:
            if isinstance(cur, ast.stmt):
                b = self._block_of(cur)
                if b is not None:
                    out.append(b)
            cur = self.parent.get(cur)
        return out

    def name_class_at(self, name, site):
        """class of `name` at the write site: the last binding before the site whose block encloses the site
        dominates; bindings after it (anywhere: loops) are added."""
        if self.selfname and name == self.selfname:
            return "self"
        binds = self.bind_at.get(name)
        if not binds:
            return self.name_class(name)
        site_blocks = self._ancestors_blocks(site)
        dom = None
        for st, v in binds:
            if st.lineno < site.lineno and isinstance(st, (ast.Assign, ast.AnnAssign)) and self._block_of(st) in site_blocks:
                if dom is None or st.lineno > dom[0].lineno:
                    dom = (st, v)
        if dom is None:
            return self.name_class(name)
        cs = set()
        for st, v in binds:
            if st is dom[0] or st.lineno > dom[0].lineno:
                cs.add(v if isinstance(v, str) else self.expr_class(v, 1))
        nonfresh = sorted(c for c in cs if c != "fresh")
        return nonfresh[0] if nonfresh else "fresh"

    # ---- write sites
    def rows(self):
        out = []

        def add(kind, target, node, what):
            r, first = _root(target)
            if r is None:
                cls = "unknown" if first != "call" else "fresh"
                rootname = "?"
            else:
                cls = self.name_class_at(r.id, node)
                rootname = r.id
            out.append({"fn": f"{self.module}.{self.qual}", "kind": kind, "root": cls, "rootname": rootname,
                        "cls": self.cls or "", "first": first or "", "line": node.lineno, "text": what[:90]})

        def store_target(t, node, kind):
            if isinstance(t, (ast.Attribute, ast.Subscript)):
                add(kind, t, node, ast.unparse(node))
            elif isinstance(t, (ast.Tuple, ast.List)):
                for el in t.elts:
                    store_target(el, node, kind)
            elif isinstance(t, ast.Starred):
                store_target(t.value, node, kind)
            elif isinstance(t, ast.Name):
                pass
            else:
                raise TranslatorError(f"{self.module}.{self.qual}:{node.lineno}: store target {ast.dump(t)[:60]}")

        for n in self.own_nodes:
            if isinstance(n, ast.Assign):
                for t in n.targets:
                    store_target(t, n, "store")
            elif isinstance(n, ast.AnnAssign) and n.value is not None:
                store_target(n.target, n, "store")
            elif isinstance(n, ast.Delete):
                for t in n.targets:
                    store_target(t, n, "store")
            elif isinstance(n, ast.AugAssign):
                if isinstance(n.target, ast.Name):
                    c = self.name_class_at(n.target.id, n)
                    if c != "fresh":
                        # x += v mutates in place when x is a list / dict / set that came from outside
                        out.append({"fn": f"{self.module}.{self.qual}", "kind": "aug", "root": c, "rootname": n.target.id,
                                    "cls": self.cls or "", "first": "", "line": n.lineno, "text": ast.unparse(n)[:90]})
                else:
                    store_target(n.target, n, "aug")
            elif isinstance(n, (ast.For, ast.AsyncFor)):
                store_target(n.target, n, "store") if not isinstance(n.target, ast.Name) else None
            elif isinstance(n, ast.Call) and isinstance(n.func, ast.Attribute) and n.func.attr in MUTATORS:
                recv = n.func.value
                if isinstance(recv, ast.Call):
                    continue                      # method of a call result: a fresh object
                if isinstance(recv, (ast.Constant, ast.JoinedStr, ast.List, ast.Dict)):
                    continue
                add("call:" + n.func.attr, ast.Attribute(value=recv, attr=n.func.attr, ctx=ast.Load()) if False else recv, n,
                    ast.unparse(n))
        return out


class _Elem:
    def __init__(self, of):
        self.of = of


def _unwrap(v):
    while isinstance(v, _Elem):
        v = v.of
    return v


def scan_source(src, module):
    tree = ast.parse(src)
    module_globals = set()
    for n in tree.body:
        if isinstance(n, ast.Assign):
            for t in n.targets:
                for sub in ast.walk(t):
                    if isinstance(sub, ast.Name):
                        module_globals.add(sub.id)
        elif isinstance(n, ast.AnnAssign) and isinstance(n.target, ast.Name):
            module_globals.add(n.target.id)
        elif isinstance(n, (ast.FunctionDef, ast.AsyncFunctionDef, ast.ClassDef)):
            module_globals.add(n.name)
        elif isinstance(n, (ast.Import, ast.ImportFrom)):
            for a in n.names:
                module_globals.add((a.asname or a.name).split(".")[0])
    rows = []

    def visit(node, qual, cls, outer):
        for ch in ast.iter_child_nodes(node):
            if isinstance(ch, ast.ClassDef):
                visit(ch, qual + [ch.name], ch.name, None)
            elif isinstance(ch, (ast.FunctionDef, ast.AsyncFunctionDef)):
                fs = FnScan(module, ".".join(qual + [ch.name]), ch, cls if isinstance(node, ast.ClassDef) else None, module_globals,
                            outer if not isinstance(node, ast.ClassDef) else None)
                rows.extend(fs.rows())
                visit(ch, qual + [ch.name], None, fs)
            else:
                visit(ch, qual, cls, outer)

    visit(tree, [], None, None)
    return rows


def scan_repo(src_root):
    d = os.path.join(src_root, "jinja2")
    rows = []
    for m in MODULES:
        rows += scan_source(open(os.path.join(d, m + ".py")).read(), m)
    return rows


if __name__ == "__main__":
    import collections
    import sys
    rows = scan_repo(sys.argv[1] if len(sys.argv) > 1 else "/repo/src")
    for r in rows:
        print(f"{r['fn']:60s} {r['kind']:16s} {r['root']:22s} {r['first']:12s} {r['text']}")
    print(len(rows), collections.Counter(r["root"].split(":")[0] for r in rows))
