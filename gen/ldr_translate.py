"""T5 translator for jinja2.loaders.split_template_path: turns the CURRENT source of the function into a
term of the deep embedding Lib/PyLdr.v (loop body as statements over the loop variable) and emits the
equation  interp cv <term> name = Model.Ldr.split_template_path cv name  for every separator convention and
every name.  Fail-closed: any construct outside the vocabulary raises Untranslatable."""
import ast
import os


class Untranslatable(Exception):
    pass


def lit(s):
    return "[" + "; ".join(str(ord(c)) for c in s) + "]"


def is_attr_chain(n, chain):
    """n is the expression a.b.c for chain ['a','b','c']"""
    for name in reversed(chain[1:]):
        if not (isinstance(n, ast.Attribute) and n.attr == name):
            return False
        n = n.value
    return isinstance(n, ast.Name) and n.id == chain[0]


def cond(n, var):
    is_var = lambda x: isinstance(x, ast.Name) and x.id == var
    if is_var(n):
        return "CTruthy"
    if isinstance(n, ast.BoolOp):
        parts = [cond_top(v, var) for v in n.values]
        op = "COr" if isinstance(n.op, ast.Or) else "CAnd"
        out = parts[0]
        for p in parts[1:]:
            out = f"({op} {out} {p})"
        return out
    if isinstance(n, ast.UnaryOp) and isinstance(n.op, ast.Not):
        return f"(CNot {cond(n.operand, var)})"
    if isinstance(n, ast.Compare) and len(n.ops) == 1:
        op, a, b = n.ops[0], n.left, n.comparators[0]
        if isinstance(op, ast.In) and is_var(b) and is_attr_chain(a, ["os", "sep"]):
            return "CSepIn"
        if isinstance(op, (ast.Eq, ast.NotEq)) and is_var(a):
            if is_attr_chain(b, ["os", "path", "pardir"]) and isinstance(op, ast.Eq):
                return "CEqPardir"
            if isinstance(b, ast.Constant) and isinstance(b.value, str):
                return f"({'CEqStr' if isinstance(op, ast.Eq) else 'CNeStr'} {lit(b.value)})"
    raise Untranslatable("condition " + ast.unparse(n))


def cond_top(n, var):
    """like cond, but recognises the guarded altsep test as an atom wherever it occurs"""
    if (isinstance(n, ast.BoolOp) and isinstance(n.op, ast.And) and len(n.values) == 2
            and is_attr_chain(n.values[0], ["os", "path", "altsep"])):
        c = n.values[1]
        if (isinstance(c, ast.Compare) and len(c.ops) == 1 and isinstance(c.ops[0], ast.In)
                and is_attr_chain(c.left, ["os", "path", "altsep"])
                and isinstance(c.comparators[0], ast.Name) and c.comparators[0].id == var):
            return "CAltsepIn"
        raise Untranslatable("altsep test " + ast.unparse(n))
    if isinstance(n, ast.BoolOp):
        parts = [cond_top(v, var) for v in n.values]
        op = "COr" if isinstance(n.op, ast.Or) else "CAnd"
        out = parts[0]
        for p in parts[1:]:
            out = f"({op} {out} {p})"
        return out
    if isinstance(n, ast.UnaryOp) and isinstance(n.op, ast.Not):
        return f"(CNot {cond_top(n.operand, var)})"
    return cond(n, var)


def stmts(body, var, acc, arg):
    return "[" + "; ".join(stmt(s, var, acc, arg) for s in body) + "]"


def stmt(st, var, acc, arg):
    if isinstance(st, ast.Pass):
        return "SPass"
    if isinstance(st, ast.Continue):
        return "SContinue"
    if isinstance(st, ast.If):
        return f"(SIf {cond_top(st.test, var)} {stmts(st.body, var, acc, arg)} {stmts(st.orelse, var, acc, arg)})"
    if isinstance(st, ast.Raise) and st.cause is None and isinstance(st.exc, ast.Call):
        c = st.exc
        if (isinstance(c.func, ast.Name) and c.func.id == "TemplateNotFound" and len(c.args) == 1 and not c.keywords
                and isinstance(c.args[0], ast.Name) and c.args[0].id == arg):
            return "SRaiseNotFound"
    if isinstance(st, ast.Expr) and isinstance(st.value, ast.Call):
        c = st.value
        if (isinstance(c.func, ast.Attribute) and c.func.attr == "append" and isinstance(c.func.value, ast.Name)
                and c.func.value.id == acc and len(c.args) == 1 and not c.keywords
                and isinstance(c.args[0], ast.Name) and c.args[0].id == var):
            return "SAppend"
    raise Untranslatable("statement " + ast.unparse(st)[:80])


def translate(src_root):
    tree = ast.parse(open(os.path.join(src_root, "jinja2", "loaders.py")).read())
    fn = [n for n in tree.body if isinstance(n, ast.FunctionDef) and n.name == "split_template_path"]
    if len(fn) != 1:
        raise Untranslatable("function split_template_path not found")
    fn = fn[0]
    if len(fn.args.args) != 1 or fn.args.defaults or fn.args.kwonlyargs or fn.args.vararg or fn.args.kwarg:
        raise Untranslatable("signature")
    arg = fn.args.args[0].arg
    body = [s for s in fn.body if not (isinstance(s, ast.Expr) and isinstance(s.value, ast.Constant))]
    if len(body) != 3:
        raise Untranslatable("expected: accumulator initialisation, for loop, return")
    init, loop, ret = body
    if not (isinstance(init, ast.Assign) and len(init.targets) == 1 and isinstance(init.targets[0], ast.Name)
            and isinstance(init.value, ast.List) and not init.value.elts):
        raise Untranslatable("accumulator initialisation " + ast.unparse(init))
    acc = init.targets[0].id
    if not (isinstance(ret, ast.Return) and isinstance(ret.value, ast.Name) and ret.value.id == acc):
        raise Untranslatable("return " + ast.unparse(ret))
    if not (isinstance(loop, ast.For) and not loop.orelse and isinstance(loop.target, ast.Name)):
        raise Untranslatable("loop header")
    it = loop.iter
    if not (isinstance(it, ast.Call) and isinstance(it.func, ast.Attribute) and it.func.attr == "split"
            and isinstance(it.func.value, ast.Name) and it.func.value.id == arg and len(it.args) == 1 and not it.keywords
            and isinstance(it.args[0], ast.Constant) and isinstance(it.args[0].value, str) and len(it.args[0].value) == 1):
        raise Untranslatable("loop iterable " + ast.unparse(it))
    var = loop.target.id
    return ord(it.args[0].value), stmts(loop.body, var, acc, arg)


COQ = r'''(* regenerated from %(root)s/jinja2/loaders.py by gen/ldr_translate.py — do not edit *)
From Coq Require Import List NArith Bool.
Import ListNotations.
From JV Require Import Model.Ldr Lib.PyLdr.
Open Scope N_scope.

Definition gen_split : func := {| split_sep := %(sep)d; body := %(body)s |}.

(* one iteration of the source's loop body does what one step of the model does *)
Lemma gen_body_eq_model : forall cv p acc,
  match execs cv (body gen_split) p acc with Next a | Fall a => Fall a | Raise => Raise end = model_piece cv p acc.
Proof.
  intros cv p acc. unfold model_piece, keep_piece. rewrite bad_piece_split. unfold s_dot, s_dotdot.
  cbn [gen_split body execs exec eval]. unfold s_dotdot.
  destruct (sep_in cv p), (altsep_in cv p), (str_eqb p [46; 46]), (str_eqb p []), (str_eqb p [46]); reflexivity.
Qed.

(* the interpreted source equals the model, for every convention and every name (induction over the pieces
   inside Lib.PyLdr.interp_eq_model) *)
Theorem split_source_eq_model : forall cv name, interp cv gen_split name = split_template_path cv name.
Proof. intros cv name. apply interp_eq_model; [reflexivity|exact (gen_body_eq_model cv)]. Qed.
Print Assumptions split_source_eq_model.
'''


def emit(src_root):
    sep, body = translate(src_root)
    return COQ % {"root": src_root, "sep": sep, "body": body}


if __name__ == "__main__":
    import sys
    print(emit(sys.argv[1] if len(sys.argv) > 1 else "/repo/src"))
