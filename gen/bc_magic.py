"""T1 for C27: regenerate the construction of jinja2.bccache.bc_magic as a fact.

The expression assigned to `bc_magic` is taken from the CURRENT source and evaluated under simulated interpreters
(a fake `sys` with version_info / hexversion of Python <major>.<minor>) for a grid of versions.  Emitted: the table
(major, minor, magic bytes) and the obligation that the magic separates every two versions of the grid — "the magic
depends on the major AND the minor version" — decided in Coq by vm_compute.  Fail-closed: the expression may only
mention pickle, sys and bc_version."""
import ast
import os
import pickle
import sys


class Untranslatable(Exception):
    pass


class FakeVersionInfo(tuple):
    major = property(lambda s: s[0])
    minor = property(lambda s: s[1])
    micro = property(lambda s: s[2])
    releaselevel = property(lambda s: s[3])
    serial = property(lambda s: s[4])


class FakeSys:
    def __init__(self, major, minor):
        # micro / release level / serial are the same for every simulated interpreter: only major and minor vary
        self.version_info = FakeVersionInfo((major, minor, 1, "final", 0))
        self.hexversion = (major << 24) | (minor << 16) | (1 << 8) | 0xF0
        self.version = f"{major}.{minor}.0 (simulated)"


GRID = [(ma, mi) for ma in (2, 3, 4) for mi in range(0, 16)]


def magic_table(src_root):
    tree = ast.parse(open(os.path.join(src_root, "jinja2", "bccache.py")).read())
    consts, expr = {}, None
    for st in tree.body:
        if isinstance(st, ast.Assign) and len(st.targets) == 1 and isinstance(st.targets[0], ast.Name):
            if st.targets[0].id == "bc_version" and isinstance(st.value, ast.Constant):
                consts["bc_version"] = st.value.value
            if st.targets[0].id == "bc_magic":
                expr = st.value
    if expr is None or "bc_version" not in consts:
        raise Untranslatable("bc_magic / bc_version assignment not found at module level")
    for n in ast.walk(expr):
        if isinstance(n, ast.Name) and n.id not in ("pickle", "sys", "bc_version"):
            raise Untranslatable(f"bc_magic mentions {n.id}")
        if isinstance(n, (ast.Lambda, ast.ListComp, ast.GeneratorExp, ast.Await, ast.NamedExpr)):
            raise Untranslatable("bc_magic expression outside the vocabulary")
    code = compile(ast.Expression(expr), "<bc_magic>", "eval")
    rows = []
    for ma, mi in GRID:
        try:
            v = eval(code, {"__builtins__": {}, "pickle": pickle, "bc_version": consts["bc_version"], "sys": FakeSys(ma, mi)})
        except Exception as e:  # noqa
            raise Untranslatable(f"bc_magic cannot be evaluated for Python {ma}.{mi}: {type(e).__name__}: {e}")
        if not isinstance(v, bytes):
            raise Untranslatable("bc_magic is not bytes")
        rows.append((ma, mi, v))
    return rows


COQ = r'''(* regenerated from %(root)s/jinja2/bccache.py by gen/bc_magic.py — do not edit *)
From Coq Require Import List NArith Bool Arith.
Import ListNotations.
From JV Require Import Model.Bc Proofs.BcProofs.
Open Scope N_scope.

(* (major, minor, bc_magic as this source computes it under Python major.minor) *)
Definition gen_magics : list (N * N * bytes) := [
%(rows)s ].

Fixpoint separated (l : list (N * N * bytes)) : bool :=
  match l with
  | [] => true
  | x :: r => forallb (fun y => negb (bytes_eqb (snd x) (snd y))) r && separated r
  end.

(* the magic depends on the major AND the minor version: no two interpreters of the grid share it *)
Lemma magic_separates_versions : separated gen_magics = true.
Proof. vm_compute. reflexivity. Qed.

(* hence an entry written under another interpreter of the grid is a miss for every table and every codec *)
Lemma foreign_entry_is_miss : forall pl ml tbl want x y rest,
  In x gen_magics -> In y gen_magics -> bytes_eqb (snd x) (snd y) = false -> length (snd x) = length (snd y) ->
  load_bytecode (snd x) pl ml tbl want (snd y ++ rest) = Miss.
Proof.
  intros pl ml tbl want x y rest _ _ H L. unfold load_bytecode.
  rewrite L, firstn_app, Nat.sub_diag, firstn_all. cbn [firstn]. rewrite app_nil_r.
  assert (E : bytes_eqb (snd y) (snd x) = false).
  { destruct (bytes_eqb (snd y) (snd x)) eqn:E; [|reflexivity].
    apply bytes_eqb_eq in E. rewrite E in H. now rewrite (proj2 (bytes_eqb_eq (snd x) (snd x)) eq_refl) in H. }
  now rewrite E.
Qed.
'''


def emit(src_root):
    rows = magic_table(src_root)
    txt = ";\n".join("  (%d, %d, [%s])" % (ma, mi, "; ".join(str(b) for b in v)) for ma, mi, v in rows)
    return COQ % {"root": src_root, "rows": txt}


if __name__ == "__main__":
    print(emit(sys.argv[1] if len(sys.argv) > 1 else "/repo/src"))
