"""T5 translator for jinja2.nativetypes: turns the CURRENT source of native_concat into a term of the deep
embedding Lib/PyNative.v and emits Gen_native.v, which proves  interpreted native_concat = Model.Native.
native_concat  for every list of pieces, for `values` a generator (consumed by islice — the reason for the
chain) and for `values` a list (render_async), with literal_eval and str() universally quantified.  The
output hooks of NativeCodeGenerator and the two render methods are small enough to be compared as exact
statement shapes (regenerated facts, fail-closed).  Anything outside the vocabulary raises Untranslatable."""
import ast
import os


class Untranslatable(Exception):
    pass


CAUGHT = {"ValueError", "SyntaxError", "MemoryError", "TypeError", "RecursionError"}


def q(s):
    return '"%s"' % s


def expr(n):
    if isinstance(n, ast.Name):
        return f"(ELocal {q(n.id)})"
    if isinstance(n, ast.Constant) and n.value is None:
        return "ENone"
    src = ast.unparse(n)
    if isinstance(n, ast.Call) and not n.keywords:
        f = ast.unparse(n.func)
        if f == "list" and len(n.args) == 1 and isinstance(n.args[0], ast.Call) and ast.unparse(n.args[0].func) == "islice":
            a = n.args[0].args
            if len(a) == 2 and isinstance(a[0], ast.Name) and isinstance(a[1], ast.Constant) and isinstance(a[1].value, int):
                return f"(EListIslice {q(a[0].id)} {a[1].value})"
        if f == "isinstance" and len(n.args) == 2 and isinstance(n.args[1], ast.Name):
            if n.args[1].id == "str":
                return f"(EIsStr {expr(n.args[0])})"
            if n.args[1].id == "GeneratorType":
                return f"(EIsGenerator {expr(n.args[0])})"
        if f == "chain" and len(n.args) == 2:
            return f"(EChain {expr(n.args[0])} {expr(n.args[1])})"
        if f == "''.join" and len(n.args) == 1 and isinstance(n.args[0], ast.ListComp):
            c = n.args[0]
            if ast.unparse(c.elt) == "str(v)" and len(c.generators) == 1 and ast.unparse(c.generators[0].target) == "v" \
                    and not c.generators[0].ifs and not c.generators[0].is_async:
                return f"(EJoinStr {expr(c.generators[0].iter)})"
        if f == "literal_eval" and len(n.args) == 1:
            a = n.args[0]
            if isinstance(a, ast.Call) and ast.unparse(a.func) == "parse" and len(a.args) == 1 \
                    and [(k.arg, ast.unparse(k.value)) for k in a.keywords] == [("mode", "'eval'")]:
                return f"(ELiteralEval {expr(a.args[0])})"
    if isinstance(n, ast.UnaryOp) and isinstance(n.op, ast.Not):
        return f"(ENot {expr(n.operand)})"
    if isinstance(n, ast.Compare) and len(n.ops) == 1 and isinstance(n.ops[0], ast.Eq):
        a, b = n.left, n.comparators[0]
        if isinstance(a, ast.Call) and ast.unparse(a.func) == "len" and len(a.args) == 1 and isinstance(b, ast.Constant) \
                and isinstance(b.value, int):
            return f"(ELenEq {expr(a.args[0])} {b.value})"
    if isinstance(n, ast.Subscript) and isinstance(n.slice, ast.Constant) and n.slice.value == 0:
        return f"(EIndex0 {expr(n.value)})"
    raise Untranslatable("expression " + src)


def stmts(body):
    return "[" + "; ".join(t for t in (stmt(s) for s in body) if t is not None) + "]"


def stmt(st):
    if isinstance(st, ast.Expr) and isinstance(st.value, ast.Constant) and isinstance(st.value.value, str):
        return None
    if isinstance(st, ast.Assign) and len(st.targets) == 1 and isinstance(st.targets[0], ast.Name):
        return f"(SAssign {q(st.targets[0].id)} {expr(st.value)})"
    if isinstance(st, ast.If):
        return f"(SIf {expr(st.test)} {stmts(st.body)} {stmts(st.orelse)})"
    if isinstance(st, ast.Return) and st.value is not None:
        return f"(SReturn {expr(st.value)})"
    if isinstance(st, ast.Try) and len(st.handlers) == 1 and not st.orelse and not st.finalbody:
        h = st.handlers[0]
        names = {ast.unparse(e) for e in h.type.elts} if isinstance(h.type, ast.Tuple) else {ast.unparse(h.type)}
        if names != CAUGHT or h.name is not None:
            raise Untranslatable("native_concat catches %s, the model's literal_eval oracle stands for %s"
                                 % (sorted(names), sorted(CAUGHT)))
        return f"(STryLiteral {stmts(st.body)} {stmts(h.body)})"
    raise Untranslatable("statement " + ast.unparse(st)[:80])


# exact shapes of the small members (unparsed source of the statements after the docstring)
SHAPES = {
    ("NativeCodeGenerator", "_default_finalize"): ["return value"],
    ("NativeCodeGenerator", "_output_const_repr"): ["return repr(''.join([str(v) for v in group]))"],
    ("NativeCodeGenerator", "_output_child_to_const"): [
        "const = node.as_const(frame.eval_ctx)",
        "if not has_safe_repr(const):\n    raise nodes.Impossible()",
        "if isinstance(node, nodes.TemplateData):\n    return const",
        "const = finalize.const(const)",
        "if not isinstance(const, str):\n    try:\n        parsed = literal_eval(parse(str(const), mode='eval'))\n    except Exception:\n        raise nodes.Impossible() from None\n    if type(parsed) is not type(const) or parsed != const:\n        raise nodes.Impossible()",
        "return const"],
    ("NativeCodeGenerator", "_output_child_pre"): ["if finalize.src is not None:\n    self.write(finalize.src)"],
    ("NativeCodeGenerator", "_output_child_post"): ["if finalize.src is not None:\n    self.write(')')"],
    ("NativeCodeGenerator", "_call_block_result_pre"): [],
    ("NativeCodeGenerator", "_call_block_result_post"): ["pass"],
    ("NativeTemplate", "render"): [
        "if self.environment.is_async:\n    import asyncio\n    return asyncio.run(self.render_async(*args, **kwargs))",
        "ctx = self.new_context(dict(*args, **kwargs))",
        # the sync path is eager since /repo fc25515: all output nodes are evaluated (list(...)) before native_concat sees
        # them, exactly like render_async; native_concat therefore receives a list on every entry point
        "try:\n    return self.environment_class.concat(list(self.root_render_func(ctx)))\nexcept Exception:\n    return self.environment.handle_exception()"],
    ("NativeTemplate", "render_async"): [
        "if not self.environment.is_async:\n    raise RuntimeError('The environment was not created with async mode enabled.')",
        "ctx = self.new_context(dict(*args, **kwargs))",
        "try:\n    return self.environment_class.concat([n async for n in self.root_render_func(ctx)])\nexcept Exception:\n    return self.environment.handle_exception()"],
}
CLASS_FACTS = {"NativeEnvironment": ["code_generator_class = NativeCodeGenerator", "concat = staticmethod(native_concat)"],
               "NativeTemplate": ["environment_class = NativeEnvironment"]}


def body_of(f):
    return [ast.unparse(s) for s in f.body if not (isinstance(s, ast.Expr) and isinstance(s.value, ast.Constant))]


def translate(src_root):
    tree = ast.parse(open(os.path.join(src_root, "jinja2", "nativetypes.py")).read())
    funcs = {n.name: n for n in tree.body if isinstance(n, ast.FunctionDef)}
    classes = {n.name: n for n in tree.body if isinstance(n, ast.ClassDef)}
    if "native_concat" not in funcs:
        raise Untranslatable("native_concat missing")
    f = funcs["native_concat"]
    if [a.arg for a in f.args.args] != ["values"] or f.decorator_list:
        raise Untranslatable("native_concat signature / decorators")
    # nothing at module level may wrap or replace the function afterwards
    for n in tree.body:
        if isinstance(n, (ast.Assign, ast.AugAssign)) and "native_concat" in ast.unparse(n).split("=")[0]:
            raise Untranslatable("native_concat is rebound at module level")
    facts = []
    for (cls, m), want in SHAPES.items():
        if cls not in classes:
            raise Untranslatable("class missing: " + cls)
        ms = {n.name: n for n in classes[cls].body if isinstance(n, (ast.FunctionDef, ast.AsyncFunctionDef))}
        if m not in ms:
            raise Untranslatable(f"{cls}.{m} missing")
        facts.append((f"{cls}.{m}", body_of(ms[m]) == want))
    for cls, wants in CLASS_FACTS.items():
        have = [ast.unparse(n) for n in classes[cls].body if isinstance(n, ast.Assign)]
        for w in wants:
            facts.append((f"{cls}: {w}", w in have))
    facts.append(("NativeEnvironment.template_class = NativeTemplate",
                  "NativeEnvironment.template_class = NativeTemplate" in [ast.unparse(n) for n in tree.body if isinstance(n, ast.Assign)]))
    return stmts(f.body), facts


TEMPLATE = r'''(* regenerated from %(root)s/jinja2/nativetypes.py by gen/native_translate.py - do not edit *)
From Coq Require Import List NArith Bool String.
Import ListNotations.
From JV Require Import Model.Native Lib.PyNative.
Open Scope string_scope.

Definition concat_body : list stmt := %(body)s.

Section Eq.
  Variable L : Type.
  Variable literal_eval : str -> option L.
  Variable str_of : N -> str.

  Definition gen_concat (values : iter) : option (nout L) :=
    present L (execs L literal_eval str_of concat_body [("values", VIter L values)]).

  Ltac ncbn := cbn [execs exec eval env_get env_set String.eqb Ascii.eqb Bool.eqb as_bool negb iter_all
                    firstn skipn List.length Nat.eqb present native_concat eval_or_text join piece_str app].
  Ltac crunch :=
    unfold eval_or_text;
    repeat (ncbn; rewrite ?app_nil_r;
            match goal with
            | |- context [literal_eval ?s] => let E := fresh "E" in destruct (literal_eval s) eqn:E; rewrite ?E
            end); ncbn; unfold eval_or_text;
    repeat match goal with E : literal_eval _ = _ |- _ => rewrite E; clear E end; try reflexivity.

  Theorem native_concat_source_eq_model_generator : forall ps,
    gen_concat (IGen ps) = Some (native_concat L literal_eval str_of ps).
  Proof.
    intros ps. unfold gen_concat, concat_body.
    destruct ps as [|[s|o] [|q r]]; crunch.
  Qed.

  Theorem native_concat_source_eq_model_list : forall ps,
    gen_concat (IList ps) = Some (native_concat L literal_eval str_of ps).
  Proof.
    intros ps. unfold gen_concat, concat_body.
    destruct ps as [|[s|o] [|q r]]; crunch.
  Qed.
End Eq.

(* exact statement shapes of the output hooks of NativeCodeGenerator (identity finalize; constants joined
   as str() and emitted as one repr; safe-repr constants only, template data unfinalized; the finalize
   call wrapped around dynamic children) and of the two render methods, read from the current source *)
Definition shape_facts : list (string * bool) := [%(facts)s].
Theorem native_member_shapes : forallb snd shape_facts = true.
Proof. vm_compute. reflexivity. Qed.

Print Assumptions native_concat_source_eq_model_generator.
Print Assumptions native_concat_source_eq_model_list.
'''


def emit(src_root):
    body, facts = translate(src_root)
    return TEMPLATE % {"root": src_root, "body": body,
                       "facts": "; ".join('("%s", %s)' % (n.replace('"', "'"), "true" if ok else "false") for n, ok in facts)}


if __name__ == "__main__":
    import sys
    print(emit(sys.argv[1] if len(sys.argv) > 1 else "/repo/src"))
