"""T5 translator for the decision functions of jinja2/sandbox.py.

Turns the CURRENT source of

    modifies_known_mutable, is_internal_attribute,
    SandboxedEnvironment.is_safe_attribute, ImmutableSandboxedEnvironment.is_safe_attribute,
    SandboxedEnvironment.getattr, SandboxedEnvironment.getitem,
    SandboxedEnvironment.is_safe_callable, SandboxedEnvironment.call

into terms of the deep embedding Lib/PySbx.v and emits Gen_sbx_src.v, which instantiates the
interpreter's world from the models (Model/SbxAttr, SbxMutable, SbxAccess, SbxCall) and proves
    interpreted source term = model function        for every argument
(for modifies_known_mutable by induction over the _mutable_spec table).  Fail-closed: any
construct outside the vocabulary raises Untranslatable.  Also checks, on the running interpreter,
every `hasattr(types, "X")` the source tests (the interpreter's world answers them with True).
"""
from __future__ import annotations

import ast
import os

FUNCS = {
    "mkm": "modifies_known_mutable",
    "internal": "is_internal_attribute",
    "safe": "SandboxedEnvironment.is_safe_attribute",
    "imm": "ImmutableSandboxedEnvironment.is_safe_attribute",
    "getattr": "SandboxedEnvironment.getattr",
    "getitem": "SandboxedEnvironment.getitem",
    "safecall": "SandboxedEnvironment.is_safe_callable",
    "immcall": "ImmutableSandboxedEnvironment.is_safe_callable",
    "call": "SandboxedEnvironment.call",
}

MODULE_GLOBALS = {"UNSAFE_FUNCTION_ATTRIBUTES", "UNSAFE_METHOD_ATTRIBUTES", "UNSAFE_GENERATOR_ATTRIBUTES",
                  "UNSAFE_COROUTINE_ATTRIBUTES", "UNSAFE_ASYNC_GENERATOR_ATTRIBUTES", "_mutable_spec", "str", "type", "partial"}
MODULE_FUNCS = {"is_internal_attribute", "modifies_known_mutable", "_plain_str"}
RECEIVERS = {"self", "__self", "__context"}


class Untranslatable(Exception):
    pass


def q(s):
    if any(ord(c) > 126 or ord(c) < 32 for c in s):
        raise Untranslatable(f"non-ASCII text {s!r}")
    return '"' + s.replace('"', '""') + '"'


class Fn:
    def __init__(self, node, qual):
        self.node = node
        self.qual = qual
        a = node.args
        if a.kwonlyargs or a.defaults or a.kw_defaults:
            raise Untranslatable(f"{qual}: parameter list with defaults / keyword-only parameters")
        # positional-only parameters (def call(__self, __context, __obj, /, *args, **kwargs)) bind like the others
        self.params = [p.arg for p in a.posonlyargs + a.args]
        self.vararg = a.vararg.arg if a.vararg else None
        self.kwarg = a.kwarg.arg if a.kwarg else None
        self.locals = set(self.params) | {x for x in (self.vararg, self.kwarg) if x}
        for n in ast.walk(node):
            if isinstance(n, ast.Name) and isinstance(n.ctx, ast.Store):
                self.locals.add(n.id)
            if isinstance(n, (ast.FunctionDef, ast.AsyncFunctionDef, ast.Lambda, ast.ClassDef)) and n is not node:
                raise Untranslatable(f"{qual}: nested definition")
        self.types_tested = []

    def bad(self, what, n):
        return Untranslatable(f"{self.qual}: {what}: {ast.unparse(n)[:80]}")

    # ---------------------------------------------------------------- expressions
    def expr(self, n):
        if isinstance(n, ast.Name):
            if n.id in self.locals:
                return f"(EVar {q(n.id)})"
            if n.id in MODULE_GLOBALS:
                return f"(EGlobal {q(n.id)})"
            raise self.bad("unknown name", n)
        if isinstance(n, ast.Attribute) and isinstance(n.value, ast.Name) and n.value.id == "types" and "types" not in self.locals:
            return f"(EGlobal {q('types.' + n.attr)})"
        if isinstance(n, ast.Attribute) and isinstance(n.ctx, ast.Load) and isinstance(n.value, ast.Name) \
                and n.value.id in self.locals and n.value.id not in RECEIVERS and n.attr in ("__self__", "__name__", "__objclass__", "func"):
            return f"(EGetattr (EVar {q(n.value.id)}) (EStr {q(n.attr)}))"
        if isinstance(n, ast.Constant):
            if n.value is None:
                return "ENone"
            if isinstance(n.value, bool):
                return f"(EBool {'true' if n.value else 'false'})"
            if isinstance(n.value, str):
                return f"(EStr {q(n.value)})"
            raise self.bad("constant", n)
        if isinstance(n, ast.JoinedStr):
            return '(EStr "<f-string>")'
        if isinstance(n, ast.Tuple):
            return "(ETuple [" + "; ".join(self.expr(e) for e in n.elts) + "])"
        if isinstance(n, ast.UnaryOp) and isinstance(n.op, ast.Not):
            return f"(ENot {self.expr(n.operand)})"
        if isinstance(n, ast.BoolOp):
            ctor = "EOr" if isinstance(n.op, ast.Or) else "EAnd"
            parts = [self.expr(v) for v in n.values]
            out = parts[-1]
            for p in reversed(parts[:-1]):
                out = f"({ctor} {p} {out})"
            return out
        if isinstance(n, ast.Compare) and len(n.ops) == 1:
            op, a, b = n.ops[0], n.left, n.comparators[0]
            if isinstance(op, ast.Eq):
                return f"(EEq {self.expr(a)} {self.expr(b)})"
            if isinstance(op, ast.In):
                return f"(EIn {self.expr(a)} {self.expr(b)})"
            if isinstance(op, ast.NotIn):
                return f"(ENot (EIn {self.expr(a)} {self.expr(b)}))"
            if isinstance(op, ast.IsNot) and isinstance(b, ast.Constant) and b.value is None:
                return f"(EIsNotNone {self.expr(a)})"
            if isinstance(op, ast.Is) and isinstance(b, ast.Constant) and b.value is None:
                return f"(ENot (EIsNotNone {self.expr(a)}))"
        if isinstance(n, ast.Subscript) and isinstance(n.ctx, ast.Load) and not isinstance(n.slice, ast.Slice):
            return f"(ESubscript {self.expr(n.value)} {self.expr(n.slice)})"
        if isinstance(n, ast.Call):
            return self.call(n)
        raise self.bad("expression", n)

    def call(self, n):
        f = n.func
        plain = not n.keywords and not any(isinstance(a, ast.Starred) for a in n.args)
        if isinstance(f, ast.Attribute) and f.attr == "startswith" and plain and len(n.args) == 1 \
                and isinstance(n.args[0], ast.Constant) and isinstance(n.args[0].value, str):
            return f"(EStartswith {self.expr(f.value)} {q(n.args[0].value)})"
        if isinstance(f, ast.Name) and f.id not in self.locals and plain:
            if f.id == "isinstance" and len(n.args) == 2:
                return f"(EIsinstance {self.expr(n.args[0])} {self.expr(n.args[1])})"
            if f.id == "hasattr" and len(n.args) == 2 and isinstance(n.args[0], ast.Name) and n.args[0].id == "types" \
                    and isinstance(n.args[1], ast.Constant) and isinstance(n.args[1].value, str):
                self.types_tested.append(n.args[1].value)
                return f"(EHasattrTypes {q(n.args[1].value)})"
            if f.id == "getattr" and len(n.args) == 2:
                return f"(EGetattr {self.expr(n.args[0])} {self.expr(n.args[1])})"
            if f.id == "getattr" and len(n.args) == 3 and isinstance(n.args[1], ast.Constant) and isinstance(n.args[1].value, str):
                return f"(EGetattrDefault {self.expr(n.args[0])} {q(n.args[1].value)} {self.expr(n.args[2])})"
            if f.id == "str" and len(n.args) == 1:
                return f"(EStrOf {self.expr(n.args[0])})"
            if f.id == "repr" and len(n.args) == 1:
                return f"(ECall {q('repr')} [{self.expr(n.args[0])}] None)"
            if f.id == "issubclass" and len(n.args) == 2:
                return f"(ECall {q('issubclass')} [{self.expr(n.args[0])}; {self.expr(n.args[1])}] None)"
            if f.id == "type" and len(n.args) == 1:
                return f"(ECall {q('type')} [{self.expr(n.args[0])}] None)"
            if f.id in MODULE_FUNCS:
                return f"(ECall {q(f.id)} [" + "; ".join(self.expr(a) for a in n.args) + "] None)"
        # method calls: self.m(...), __self.m(...), __context.call(...), super().m(...)
        recv = None
        if isinstance(f, ast.Attribute):
            v = f.value
            if isinstance(v, ast.Name) and v.id in RECEIVERS and v.id in self.params:
                recv = v.id
            elif isinstance(v, ast.Call) and isinstance(v.func, ast.Name) and v.func.id == "super" and not v.args and not v.keywords:
                recv = "super()"
        if recv is not None:
            args, star, sig = [], "None", []
            for a in n.args:
                if isinstance(a, ast.Starred):
                    if star != "None" or not (isinstance(a.value, ast.Name) and a.value.id == self.vararg):
                        raise self.bad("starred argument", n)
                    star = f"(Some {self.expr(a.value)})"
                    sig.append("*")
                else:
                    if star != "None":
                        raise self.bad("positional after *", n)
                    args.append(self.expr(a))
            for k in n.keywords:
                if k.arg is None:
                    if not (isinstance(k.value, ast.Name) and k.value.id == self.kwarg):
                        raise self.bad("** argument", n)
                    sig.append("**")
                else:
                    args.append(self.expr(k.value))
                    sig.append(k.arg + "=")
            name = f"{recv}.{f.attr}" + ("(" + ",".join(sig) + ")" if sig else "")
            return f"(ECall {q(name)} [" + "; ".join(args) + f"] {star})"
        raise self.bad("call", n)

    # ---------------------------------------------------------------- statements
    def stmts(self, body):
        out = []
        for st in body:
            t = self.stmt(st)
            if t is not None:
                out.append(t)
        return "[" + "; ".join(out) + "]"

    def exn_names(self, t, st):
        if isinstance(t, ast.Name):
            return [t.id]
        if isinstance(t, ast.Tuple) and all(isinstance(e, ast.Name) for e in t.elts):
            return [e.id for e in t.elts]
        raise self.bad("exception class", st)

    def stmt(self, st):
        if isinstance(st, ast.Expr) and isinstance(st.value, ast.Constant) and isinstance(st.value.value, str):
            return None
        if isinstance(st, ast.Pass):
            return "SPass"
        if isinstance(st, ast.Return):
            return f"(SReturn {self.expr(st.value) if st.value is not None else 'ENone'})"
        if isinstance(st, ast.Assign) and len(st.targets) == 1 and isinstance(st.targets[0], ast.Name):
            return f"(SAssign {q(st.targets[0].id)} {self.expr(st.value)})"
        if isinstance(st, ast.AnnAssign) and isinstance(st.target, ast.Name) and st.value is not None:
            return f"(SAssign {q(st.target.id)} {self.expr(st.value)})"
        if isinstance(st, ast.If):
            return f"(SIf {self.expr(st.test)} {self.stmts(st.body)} {self.stmts(st.orelse)})"
        if isinstance(st, ast.Raise) and st.cause is None and st.exc is not None:
            e = st.exc
            if isinstance(e, ast.Call) and isinstance(e.func, ast.Name):
                return f"(SRaise {q(e.func.id)})"
            if isinstance(e, ast.Name):
                return f"(SRaise {q(e.id)})"
        if isinstance(st, ast.Try) and len(st.handlers) == 1 and not st.finalbody:
            h = st.handlers[0]
            if h.name is None and h.type is not None:
                names = "[" + "; ".join(q(x) for x in self.exn_names(h.type, st)) + "]"
                return f"(STry {self.stmts(st.body)} {names} {self.stmts(h.body)} {self.stmts(st.orelse)})"
        if isinstance(st, ast.For) and not st.orelse:
            tg = st.target
            if isinstance(tg, ast.Name):
                names = [tg.id]
            elif isinstance(tg, ast.Tuple) and all(isinstance(e, ast.Name) for e in tg.elts):
                names = [e.id for e in tg.elts]
            else:
                raise self.bad("loop target", st)
            return f"(SFor [{'; '.join(q(x) for x in names)}] {self.expr(st.iter)} {self.stmts(st.body)})"
        raise self.bad("statement", st)


def find(tree, qual):
    body = tree.body
    node = None
    for p in qual.split("."):
        node = None
        for n in body:
            if isinstance(n, (ast.FunctionDef, ast.ClassDef)) and n.name == p:
                node = n
        if node is None:
            raise Untranslatable(f"{qual} not found in sandbox.py")
        body = node.body
    if not isinstance(node, ast.FunctionDef):
        raise Untranslatable(f"{qual} is not a plain function")
    if node.decorator_list:
        raise Untranslatable(f"{qual} is decorated")
    return node


def translate(src_root):
    path = os.path.join(src_root, "jinja2", "sandbox.py")
    tree = ast.parse(open(path, encoding="utf-8").read(), path)
    # ImmutableSandboxedEnvironment must still derive from SandboxedEnvironment (super() target)
    for n in tree.body:
        if isinstance(n, ast.ClassDef) and n.name == "ImmutableSandboxedEnvironment":
            if [ast.unparse(b) for b in n.bases] != ["SandboxedEnvironment"]:
                raise Untranslatable("ImmutableSandboxedEnvironment no longer derives from SandboxedEnvironment only")
    out = {}
    types_tested = []
    for key, qual in FUNCS.items():
        fn = Fn(find(tree, qual), qual)
        out[key] = {"body": fn.stmts(fn.node.body), "params": fn.params, "vararg": fn.vararg, "kwarg": fn.kwarg}
        if key == "mkm":
            # the proof is an induction over the table: the body must be `for a, b in <iter>: ...` + tail
            body = [s_ for s_ in fn.node.body
                    if not (isinstance(s_, ast.Expr) and isinstance(s_.value, ast.Constant) and isinstance(s_.value.value, str))]
            if not (body and isinstance(body[0], ast.For) and isinstance(body[0].target, ast.Tuple)
                    and len(body[0].target.elts) == 2 and all(isinstance(e, ast.Name) for e in body[0].target.elts)
                    and not body[0].orelse):
                raise Untranslatable("modifies_known_mutable: body is not a two-target for loop followed by a tail")
            out[key]["loop"] = {"targets": [e.id for e in body[0].target.elts], "iter": fn.expr(body[0].iter),
                                "body": fn.stmts(body[0].body), "tail": fn.stmts(body[1:])}
        types_tested += fn.types_tested
    import types as _types
    for name in types_tested:
        if not hasattr(_types, name):
            raise Untranslatable(f"hasattr(types, {name!r}) is false on the running interpreter")
    return out


def expect_params(t, key, n, star=False):
    p = t[key]["params"]
    if len(p) != n or (t[key]["vararg"] is not None) != star:
        raise Untranslatable(f"{FUNCS[key]}: parameter list {p} (vararg {t[key]['vararg']}) is not the modelled one")
    return p


COQ = r'''(* regenerated from %(root)s/jinja2/sandbox.py by gen/sbx_translate.py — do not edit *)
From Coq Require Import List Bool String ZArith.
Import ListNotations.
From JV Require Import Model.SbxAttr Model.SbxMutable Model.SbxAccess Model.SbxCall Lib.PySbx.
Open Scope string_scope. Open Scope list_scope.

Arguments prefix : simpl never.
Arguments String.eqb : simpl nomatch.

(* ------------------------------------------------------------------ the source terms *)
%(bodies)s

(* no events except in [call] *)
Definition noev := Empty_set.
Definition no_getattr {O} (o : O) (a : string) : outcome (pv O) := Exc "AttributeError".
Definition no_getitem {O} (o : O) (k : pv O) : outcome (pv O) := Exc "TypeError".
Definition no_call {O E} (f : string) (args : list (pv O)) : list E * outcome (pv O) := ([], Exc "NameError").
Definition no_globals {O} (n : string) : pv O := PNone.
Definition yes (n : string) : bool := true.
(* a boolean answer of a function interpreted over another object domain *)
Definition lift_bool {A B} (r : list noev * outcome (pv A)) : list noev * outcome (pv B) :=
  match r with
  | (_, Norm (PBool b)) => ([], Norm (PBool b))
  | (_, Norm _) => ([], Exc "TypeError")
  | (_, Exc x) => ([], Exc x)
  end.

(* ---- is_internal_attribute / is_safe_attribute: worlds and interpreted source (definitions)
   objects: the branch of the isinstance chain ([okind]); a class of the `types` module is the
   predicate "is that branch" *)
Definition okind_eqb (a b : okind) : bool :=
  match a, b with
  | KFunction, KFunction | KMethod, KMethod | KType, KType | KCode, KCode | KTraceback, KTraceback
  | KFrame, KFrame | KGenerator, KGenerator | KCoroutine, KCoroutine | KAsyncGen, KAsyncGen | KOther, KOther => true
  | _, _ => false
  end.
Definition internal_globals (tb : tables) (n : string) : pv okind :=
  if String.eqb n "types.FunctionType" then PTy (okind_eqb KFunction)
  else if String.eqb n "types.MethodType" then PTy (okind_eqb KMethod)
  else if String.eqb n "type" then PTy (okind_eqb KType)
  else if String.eqb n "types.CodeType" then PTy (okind_eqb KCode)
  else if String.eqb n "types.TracebackType" then PTy (okind_eqb KTraceback)
  else if String.eqb n "types.FrameType" then PTy (okind_eqb KFrame)
  else if String.eqb n "types.GeneratorType" then PTy (okind_eqb KGenerator)
  else if String.eqb n "types.CoroutineType" then PTy (okind_eqb KCoroutine)
  else if String.eqb n "types.AsyncGeneratorType" then PTy (okind_eqb KAsyncGen)
  else if String.eqb n "UNSAFE_FUNCTION_ATTRIBUTES" then PSet (t_function tb)
  else if String.eqb n "UNSAFE_METHOD_ATTRIBUTES" then PSet (t_method tb)
  else if String.eqb n "UNSAFE_GENERATOR_ATTRIBUTES" then PSet (t_generator tb)
  else if String.eqb n "UNSAFE_COROUTINE_ATTRIBUTES" then PSet (t_coroutine tb)
  else if String.eqb n "UNSAFE_ASYNC_GENERATOR_ATTRIBUTES" then PSet (t_asyncgen tb)
  else PNone.
Definition src_internal (tb : tables) (k : okind) (attr : string) : list noev * outcome (pv okind) :=
  run okind noev (internal_globals tb) yes no_getattr no_getitem no_call exn_isa body_internal
      [(%(int_obj)s, PObj k); (%(int_attr)s, PStr attr)].

Definition safe_call (tb : tables) (f : string) (args : list (pv okind)) : list noev * outcome (pv okind) :=
  match args with
  | [PObj k; PStr a] => if String.eqb f "is_internal_attribute" then src_internal tb k a else ([], Exc "NameError")
  | _ => ([], Exc "TypeError")
  end.
Definition src_safe (tb : tables) (k : okind) (attr : string) : list noev * outcome (pv okind) :=
  run okind noev no_globals yes no_getattr no_getitem (safe_call tb) exn_isa body_safe
      [(%(safe_self)s, PNone); (%(safe_obj)s, PObj k); (%(safe_attr)s, PStr attr); (%(safe_value)s, PNone)].


(* ================================================================== modifies_known_mutable
   objects: the four exact builtin types; _mutable_spec: the table, each row's type being its
   isinstance predicate *)
(* an object of the lookup: an instance of the exact type, or the type itself (whose attribute is the unbound method) *)
Inductive mobj := MInst (T : btype) | MClass (T : btype).
Definition mtype (o : mobj) : btype := match o with MInst T | MClass T => T end.
Definition row_value (r : row) : pv mobj :=
  PTuple [PTy (fun o => match o with MInst T => mem_b T (row_inst r) | MClass _ => false end); PSet (row_attrs r)].
Definition mkm_globals (spec : list row) (n : string) : pv mobj :=
  if String.eqb n "_mutable_spec" then PTuple (map row_value spec)
  else if String.eqb n "type" then PTy (fun o => match o with MClass _ => true | MInst _ => false end)
  else PNone.
(* issubclass(C, rowtype) for the four exact types is isinstance(C(), rowtype): the same dumped facts *)
Definition mkm_call (f : string) (args : list (pv mobj)) : list noev * outcome (pv mobj) :=
  if String.eqb f "issubclass" then
    match args with
    | [PObj (MClass T); PTy p] => ([], Norm (PBool (p (MInst T))))
    | _ => ([], Exc "TypeError")
    end
  else ([], Exc "NameError").
Definition src_mkm (spec : list row) (o : mobj) (attr : string) : list noev * outcome (pv mobj) :=
  run mobj noev (mkm_globals spec) yes no_getattr no_getitem mkm_call exn_isa body_mkm
      [(%(mkm_obj)s, PObj o); (%(mkm_attr)s, PStr attr)].

%(mkm_proof)s

(* ================================================================== is_internal_attribute *)
Theorem is_internal_attribute_source_eq_model : forall tb k attr,
  src_internal tb k attr = ([], Norm (PBool (is_internal_attribute tb k attr))).
Proof.
  intros tb k attr. unfold src_internal, body_internal, is_internal_attribute, starts_dunder, mem_s, run.
  destruct k; cbn; unfold smem;
    repeat (match goal with
            | |- context [if ?c then _ else _] => destruct c eqn:?
            end; cbn);
    try reflexivity; try congruence.
Qed.

(* ================================================================== SandboxedEnvironment.is_safe_attribute *)
Theorem is_safe_attribute_source_eq_model : forall tb k attr,
  src_safe tb k attr = ([], Norm (PBool (is_safe_attribute tb k attr))).
Proof.
  intros tb k attr. unfold src_safe, body_safe, is_safe_attribute, starts_underscore, run.
  cbn -[src_internal]. rewrite is_internal_attribute_source_eq_model.
  destruct (prefix "_" attr) eqn:Hp; cbn; [reflexivity|].
  destruct (is_internal_attribute tb k attr); reflexivity.
Qed.

(* ================================================================== is_internal_attribute / is_safe_attribute, last branch only
   (instances of ordinary classes and builtin containers: all the immutable sandbox's equations need) *)
Theorem is_internal_attribute_source_eq_model_other : forall tb attr,
  src_internal tb KOther attr = ([], Norm (PBool (is_internal_attribute tb KOther attr))).
Proof.
  intros tb attr. unfold src_internal, body_internal, is_internal_attribute, starts_dunder, run.
  cbn; try reflexivity.
Qed.

Theorem is_safe_attribute_source_eq_model_other : forall tb attr,
  src_safe tb KOther attr = ([], Norm (PBool (is_safe_attribute tb KOther attr))).
Proof.
  intros tb attr. unfold src_safe, body_safe, is_safe_attribute, starts_underscore, run.
  cbn -[src_internal]. rewrite is_internal_attribute_source_eq_model_other.
  destruct (prefix "_" attr) eqn:Hp; cbn; [reflexivity|].
  destruct (is_internal_attribute tb KOther attr); reflexivity.
Qed.

(* ================================================================== ImmutableSandboxedEnvironment.is_safe_attribute
   objects: instances of the four exact builtin types (last branch of the isinstance chain) *)
Definition imm_call (tb : tables) (spec : list row) (f : string) (args : list (pv btype)) : list noev * outcome (pv btype) :=
  match args with
  | [PObj T; PStr a; _] => if String.eqb f "super().is_safe_attribute" then lift_bool (src_safe tb KOther a) else ([], Exc "NameError")
  | [PObj T; PStr a] => if String.eqb f "modifies_known_mutable" then lift_bool (src_mkm spec (MInst T) a) else ([], Exc "NameError")
  | _ => ([], Exc "TypeError")
  end.
Definition src_imm (tb : tables) (spec : list row) (T : btype) (attr : string) : list noev * outcome (pv btype) :=
  run btype noev no_globals yes no_getattr no_getitem (imm_call tb spec) exn_isa body_imm
      [(%(imm_self)s, PNone); (%(imm_obj)s, PObj T); (%(imm_attr)s, PStr attr); (%(imm_value)s, PNone)].

Theorem immutable_is_safe_attribute_source_eq_model : forall tb spec T attr,
  src_imm tb spec T attr = ([], Norm (PBool (immutable_is_safe_attribute tb spec T attr))).
Proof.
  intros tb spec T attr. unfold src_imm, body_imm, immutable_is_safe_attribute, run.
  cbn -[src_safe src_mkm]. rewrite is_safe_attribute_source_eq_model_other.
  destruct (is_safe_attribute tb KOther attr); cbn -[src_mkm]; [|reflexivity].
  rewrite modifies_known_mutable_source_eq_model. cbn.
  destruct (modifies_known_mutable spec T attr); reflexivity.
Qed.

(* ================================================================== getattr / getitem
   objects: the value trees of Model/SbxAccess *)
(* is the object one of the two undefined values (operating on them raises)? *)
Inductive undef_kind := UPlain | UUndef | UUnsafe.
Definition undef_of (o : value) : undef_kind := match o with VUndef => UUndef | VUnsafe => UUnsafe | _ => UPlain end.
Definition acc_getattr (o : value) (a : string) : outcome (pv value) :=
  match undef_of o with
  | UUndef => Exc "UndefinedError"
  | UUnsafe => Exc "SecurityError"
  | UPlain => match py_getattr o a with Some v => Norm (PObj v) | None => Exc "AttributeError" end
  end.
Definition key_of_pv (k : pv value) : option key :=
  match k with PStr s => Some (KStr s) | PInt z => Some (KInt z) | PSub c s => Some (KSub c s) | _ => None end.
Definition acc_getitem (o : value) (k : pv value) : outcome (pv value) :=
  match undef_of o with
  | UUndef => Exc "UndefinedError"
  | UUnsafe => Exc "SecurityError"
  | UPlain => match key_of_pv k with
              | Some kk => match py_getitem o kk with Some v => Norm (PObj v) | None => Exc "LookupError" end
              | None => Exc "TypeError"
              end
  end.
(* the model functions, case-split the same way (3 cases instead of one per constructor of [value]) *)
Lemma sandbox_getattr_cases : forall tb o a,
  sandbox_getattr tb o a =
  match undef_of o with
  | UUndef => RRaise EUndefinedError
  | UUnsafe => RRaise ESecurityError
  | UPlain => match py_getattr o a with
              | Some v => attr_branch tb o a v
              | None => match py_getitem o (KStr a) with Some v => RItem v | None => RUndefined end
              end
  end.
Proof. intros tb o a. destruct o; reflexivity. Qed.
Lemma sandbox_getitem_cases : forall tb o k,
  sandbox_getitem tb o k =
  match undef_of o with
  | UUndef => RRaise EUndefinedError
  | UUnsafe => RRaise ESecurityError
  | UPlain => match py_getitem o k with
              | Some v => RItem v
              | None => match k with
                        | KStr a | KSub _ a => match py_getattr o a with Some v => attr_branch tb o a v | None => RUndefined end
                        | KInt _ => RUndefined
                        end
              end
  end.
Proof. intros tb o k. destruct o; destruct k; reflexivity. Qed.
Definition acc_globals (n : string) : pv value := if String.eqb n "str" then PStrTy else PNone.
Definition acc_call (tb : tables) (f : string) (args : list (pv value)) : list noev * outcome (pv value) :=
  if String.eqb f "self.is_safe_attribute" then
    match args with
    | [PObj o; PStr a; _] => lift_bool (src_safe tb (kind_of o) a)
    | [PObj o; PSub _ _; _] => ([], Norm (PBool true))
        (* a str-subclass instance passed on as the name: its startswith / == / hash are the data's own code, so a
           check made on it is worth nothing — modelled adversarially as "safe" *)
    | _ => ([], Exc "TypeError")
    end
  else if String.eqb f "_plain_str" then
    match args with
    | [PStr a] => ([], Norm (PStr a))
    | [PSub content _] => ([], Norm (PStr content))      (* str.__str__: the characters, not what __str__ says *)
    | _ => ([], Exc "TypeError")
    end
  else if String.eqb f "self.wrap_str_format" then
    match args with
    | [PObj v] => ([], Norm (match wrap_str_format v with Some w => PObj w | None => PNone end))
    | _ => ([], Exc "TypeError")
    end
  else if String.eqb f "self.unsafe_undefined" then
    match args with [PObj _; _] => ([], Norm (PObj VUnsafe)) | _ => ([], Exc "TypeError") end
  else if String.eqb f "self.undefined(obj=,name=)" then
    match args with [PObj _; _] => ([], Norm (PObj VUndef)) | _ => ([], Exc "TypeError") end
  else ([], Exc "NameError").

(* the Python-visible outcome of a model result *)
Definition visible (r : result) : list noev * outcome (pv value) :=
  match r with
  | RValue v | RItem v | RFormat v => ([], Norm (PObj v))
  | RUndefined => ([], Norm (PObj VUndef))
  | RUnsafe => ([], Norm (PObj VUnsafe))
  | RRaise EUndefinedError => ([], Exc "UndefinedError")
  | RRaise ESecurityError => ([], Exc "SecurityError")
  | RRaise EIndexError => ([], Exc "IndexError")
  | RRaise EKeyError => ([], Exc "KeyError")
  end.

Definition src_getattr (tb : tables) (o : value) (a : string) : list noev * outcome (pv value) :=
  run value noev acc_globals yes acc_getattr acc_getitem (acc_call tb) exn_isa body_getattr
      [(%(ga_self)s, PNone); (%(ga_obj)s, PObj o); (%(ga_attr)s, PStr a)].
Definition pv_of_key (k : key) : pv value := match k with KStr s => PStr s | KInt z => PInt z | KSub c s => PSub c s end.
Definition src_getitem (tb : tables) (o : value) (k : key) : list noev * outcome (pv value) :=
  run value noev acc_globals yes acc_getattr acc_getitem (acc_call tb) exn_isa body_getitem
      [(%(gi_self)s, PNone); (%(gi_obj)s, PObj o); (%(gi_arg)s, pv_of_key k)].

Ltac access_crunch tb :=
  repeat (cbn -[src_safe is_safe_attribute py_getattr py_getitem wrap_str_format kind_of undef_of];
          try rewrite is_safe_attribute_source_eq_model;
          try match goal with H : undef_of _ = _ |- _ => rewrite H end;
          match goal with
          | |- context [match py_getattr ?o ?a with _ => _ end] => destruct (py_getattr o a) eqn:?
          | |- context [match py_getitem ?o ?k with _ => _ end] => destruct (py_getitem o k) eqn:?
          | |- context [if is_safe_attribute ?t ?k ?a then _ else _] => destruct (is_safe_attribute t k a) eqn:?
          | |- context [match wrap_str_format ?v with _ => _ end] => destruct (wrap_str_format v) eqn:?
          end);
  cbn -[src_safe is_safe_attribute py_getattr py_getitem wrap_str_format kind_of undef_of];
  try match goal with H : undef_of _ = _ |- _ => rewrite H end;
  cbn -[src_safe is_safe_attribute py_getattr py_getitem wrap_str_format kind_of undef_of];
  try reflexivity; try congruence.

Theorem getattr_source_eq_model : forall tb o a, src_getattr tb o a = visible (sandbox_getattr tb o a).
Proof.
  intros tb o a. rewrite sandbox_getattr_cases. unfold src_getattr, body_getattr, attr_branch, run, acc_getattr, acc_getitem.
  destruct (undef_of o) eqn:Hu; access_crunch tb.
Qed.

(* the name handed to getattr is an instance of a str subclass (content [c]): it is looked up and CHECKED as [c] *)
Definition src_getattr_subname (tb : tables) (o : value) (c shown : string) : list noev * outcome (pv value) :=
  run value noev acc_globals yes acc_getattr acc_getitem (acc_call tb) exn_isa body_getattr
      [(%(ga_self)s, PNone); (%(ga_obj)s, PObj o); (%(ga_attr)s, PSub c shown)].

Theorem getattr_subclass_name_source_eq_model : forall tb o c shown,
  src_getattr_subname tb o c shown = visible (sandbox_getattr tb o c).
Proof.
  intros tb o c shown. rewrite sandbox_getattr_cases. unfold src_getattr_subname, body_getattr, attr_branch, run, acc_getattr, acc_getitem.
  destruct (undef_of o) eqn:Hu; access_crunch tb.
Qed.

Theorem getitem_source_eq_model : forall tb o k, src_getitem tb o k = visible (sandbox_getitem tb o k).
Proof.
  intros tb o k. rewrite sandbox_getitem_cases. unfold src_getitem, body_getitem, attr_branch, run, acc_getattr, acc_getitem.
  destruct k; destruct (undef_of o) eqn:Hu; access_crunch tb.
Qed.

(* ================================================================== is_safe_callable / call
   objects: the values of Model/SbxCall; events: safety checks and invocations *)
(* objects of is_safe_callable: a (possibly partial-wrapped) callable, its type, the __call__ found on the type, the
   __call__ attribute found on the instance.  The recursive call on the callable a partial wraps is answered by the
   model on that callable (structural recursion over [wcallable]). *)
Inductive scobj := SCW (w : wcallable) | SCType (c : callable) | SCCallAttr (c : callable) | SCICallAttr (c : callable).
Definition w_own (w : wcallable) : callable := match w with WPlain c => c | WPartial own _ => own end.
Definition sc_flag {O} (b : bool) : outcome (pv O) := if b then Norm (PBool true) else Exc "AttributeError".
Definition sc_getattr (o : scobj) (a : string) : outcome (pv scobj) :=
  match o with
  | SCW w => if String.eqb a "unsafe_callable" then sc_flag (c_unsafe (w_own w))
             else if String.eqb a "alters_data" then sc_flag (c_alters (w_own w))
             else if String.eqb a "__call__" then Norm (PObj (SCICallAttr (w_own w)))
             else if String.eqb a "func" then match w with WPartial _ inner => Norm (PObj (SCW inner)) | WPlain _ => Exc "AttributeError" end
             else Exc "AttributeError"
  | SCType c => if String.eqb a "__call__" then Norm (PObj (SCCallAttr c)) else Exc "AttributeError"
  | SCCallAttr c => if String.eqb a "unsafe_callable" then sc_flag (c_call_unsafe c)
                    else if String.eqb a "alters_data" then sc_flag (c_call_alters c) else Exc "AttributeError"
  | SCICallAttr c => if String.eqb a "unsafe_callable" then sc_flag (c_icall_unsafe c)
                     else if String.eqb a "alters_data" then sc_flag (c_icall_alters c) else Exc "AttributeError"
  end.
Definition sc_globals (n : string) : pv scobj :=
  if String.eqb n "partial" then PTy (fun o => match o with SCW (WPartial _ _) => true | _ => false end) else PNone.
Definition sc_call (f : string) (args : list (pv scobj)) : list noev * outcome (pv scobj) :=
  if String.eqb f "type" then
    match args with [PObj (SCW w)] => ([], Norm (PObj (SCType (w_own w)))) | _ => ([], Exc "TypeError") end
  else if String.eqb f (%(sc_self)s ++ ".is_safe_callable") then
    match args with [PObj (SCW w)] => ([], Norm (PBool (is_safe_wcallable w))) | _ => ([], Exc "TypeError") end
  else ([], Exc "NameError").
Definition src_safecall (w : wcallable) : list noev * outcome (pv scobj) :=
  run scobj noev sc_globals yes sc_getattr no_getitem sc_call exn_isa body_safecall
      [(%(sc_self)s, PNone); (%(sc_obj)s, PObj (SCW w))].

Theorem is_safe_callable_source_eq_model : forall w,
  src_safecall w = ([], Norm (PBool (is_safe_wcallable w))).
Proof.
  intros w. unfold src_safecall, body_safecall, run.
  destruct w as [[i u a fm cu ca iu ia]|[i u a fm cu ca iu ia] inner]; cbn [is_safe_wcallable];
    unfold is_safe_callable_default; cbn -[is_safe_wcallable];
    try destruct (is_safe_wcallable inner); destruct u, a, cu, ca, iu, ia; reflexivity.
Qed.

Fixpoint unwrap (l : list (pv cval)) : list cval :=
  match l with [] => [] | PObj v :: r => v :: unwrap r | _ :: r => CVUndef :: unwrap r end.
(* the methods call() uses: the predicate in force (emits the check event), wrap_str_format
   (a wrapper for a bound str.format / format_map, else None) and Context.call (runs the object:
   natively, or the sandboxed formatter when it is a wrapper).  The wrapper is a plain function
   without markers: the predicate is assumed to accept the sandbox's own wrapper. *)
Definition gate_call (policy : callable -> bool) (invoke_result format_result : callable -> list cval -> cval)
           (f : string) (args : list (pv cval)) : list event * outcome (pv cval) :=
  if String.eqb f (%(call_self)s ++ ".is_safe_callable") then
    match args with
    | [PObj (CVCallable c)] => ([EvCheck c (policy c)], Norm (PBool (policy c)))
    | [PObj _] => ([], Norm (PBool true))       (* not a callable / the wrapper: nothing to refuse *)
    | _ => ([], Exc "TypeError")
    end
  else if String.eqb f "repr" then ([], Norm (PStr "<repr>"))
  else if String.eqb f (%(call_self)s ++ ".wrap_str_format") then
    match args with
    | [PObj (CVCallable c)] => ([], Norm (if c_format c then PObj (CVWrap c) else PNone))
    | [PObj _] => ([], Norm PNone)
    | _ => ([], Exc "TypeError")
    end
  else if String.eqb f (%(call_ctx)s ++ ".call(*,**)") then
    match args with
    | PObj (CVCallable c) :: rest => ([EvInvoke c], Norm (PObj (invoke_result c (unwrap rest))))
    | PObj (CVWrap c) :: rest => ([EvFormat c], Norm (PObj (format_result c (unwrap rest))))
    | PObj _ :: _ => ([], Exc "TypeError")
    | _ => ([], Exc "TypeError")
    end
  else ([], Exc "NameError").

Definition src_call (policy : callable -> bool) (invoke_result format_result : callable -> list cval -> cval)
           (f : cval) (args : list cval) : list event * outcome (pv cval) :=
  run cval event no_globals yes no_getattr no_getitem (gate_call policy invoke_result format_result) exn_isa body_call
      [(%(call_self)s, PNone); (%(call_ctx)s, PNone); (%(call_obj)s, PObj f); (%(call_args)s, PTuple (map PObj args));
       (%(call_kwargs)s, PNone)].

Definition visible_call (r : SbxCall.res) : list event * outcome (pv cval) :=
  match r with
  | (l, OVal v) => (l, Norm (PObj v))
  | (l, OSecurityError) => (l, Exc "SecurityError")
  | (l, OOtherError) => (l, Exc "TypeError")
  end.

Lemma unwrap_map : forall args, unwrap (map PObj args) = args.
Proof. induction args as [|x r IH]; [reflexivity|]. cbn. rewrite IH. reflexivity. Qed.

Theorem call_source_eq_model : forall policy invoke_result format_result f args,
  src_call policy invoke_result format_result f args = visible_call (sandbox_call policy invoke_result format_result f args).
Proof.
  intros policy invoke_result format_result f args. unfold src_call, body_call, sandbox_call, run.
  destruct f as [n|c|c|]; cbn -[unwrap]; try reflexivity.
  - destruct (policy c) eqn:Hp; cbn -[unwrap]; [|reflexivity].
    destruct (c_format c) eqn:Hf; cbn -[unwrap]; rewrite unwrap_map; reflexivity.
  - rewrite unwrap_map. reflexivity.
Qed.

(* ================================================================== ImmutableSandboxedEnvironment.is_safe_callable
   objects: a stored reference in one of its forms (Model/SbxMutable.stored_ref), the container or type it is bound to,
   anything else.  super().is_safe_callable answers an ARBITRARY boolean [sup] about the object itself (markers on a
   wrapper object such as a functools.partial are the base class's business and must be consulted first).  The recursive call on the
   callable a partial wraps is answered by the model on that callable (structural recursion over [stored_ref]). *)
Inductive icobj := ICRef (r : stored_ref) | ICSelf (T : btype) | ICClass (T : btype).
(* a bound reference is a builtin method (bk = true: lst.append) or a method-wrapper (bk = false: lst.__setitem__);
   an unbound one a method descriptor (uk = true: list.append) or a wrapper descriptor (uk = false: list.__setitem__) *)
Definition ic_globals (bk uk : bool) (n : string) : pv icobj :=
  if String.eqb n "types.BuiltinMethodType" then PTy (fun o => match o with ICRef (RBound _ _) => bk | _ => false end)
  else if String.eqb n "types.MethodWrapperType" then PTy (fun o => match o with ICRef (RBound _ _) => negb bk | _ => false end)
  else if String.eqb n "types.MethodType" then PTy (fun _ => false)
  else if String.eqb n "types.MethodDescriptorType" then PTy (fun o => match o with ICRef (RUnbound _ _) => uk | _ => false end)
  else if String.eqb n "types.WrapperDescriptorType" then PTy (fun o => match o with ICRef (RUnbound _ _) => negb uk | _ => false end)
  else if String.eqb n "partial" then PTy (fun o => match o with ICRef (RPartial _) => true | _ => false end)
  else PNone.
Definition ic_getattr (o : icobj) (a : string) : outcome (pv icobj) :=
  match o with
  | ICRef (RBound T m) => if String.eqb a "__self__" then Norm (PObj (ICSelf T))
                          else if String.eqb a "__name__" then Norm (PStr m) else Exc "AttributeError"
  | ICRef (RUnbound T m) => if String.eqb a "__objclass__" then Norm (PObj (ICClass T))
                            else if String.eqb a "__name__" then Norm (PStr m) else Exc "AttributeError"
  | ICRef (RPartial r) => if String.eqb a "func" then Norm (PObj (ICRef r)) else Exc "AttributeError"
  | _ => Exc "AttributeError"
  end.
Definition ic_call (spec : list row) (sup : bool) (f : string) (args : list (pv icobj)) : list noev * outcome (pv icobj) :=
  if String.eqb f "super().is_safe_callable" then ([], Norm (PBool sup))
  else if String.eqb f (%(ic_self)s ++ ".is_safe_callable") then
    match args with
    | [PObj (ICRef r)] => ([], Norm (PBool (immutable_safe_ref spec r)))
    | _ => ([], Exc "TypeError")
    end
  else if String.eqb f "modifies_known_mutable" then
    match args with
    | [PObj (ICSelf T); PStr m] => lift_bool (src_mkm spec (MInst T) m)
    | [PObj (ICClass T); PStr m] => lift_bool (src_mkm spec (MClass T) m)
    | _ => ([], Exc "TypeError")
    end
  else ([], Exc "NameError").
Definition src_immcall (spec : list row) (sup bk uk : bool) (o : icobj) : list noev * outcome (pv icobj) :=
  run icobj noev (ic_globals bk uk) yes ic_getattr no_getitem (ic_call spec sup) exn_isa body_immcall
      [(%(ic_self)s, PNone); (%(ic_obj)s, PObj o)].

Theorem immutable_is_safe_callable_source_eq_model : forall spec sup bk uk r,
  src_immcall spec sup bk uk (ICRef r) = ([], Norm (PBool (sup && immutable_safe_ref spec r))).
Proof.
  intros spec sup bk uk r. unfold src_immcall, body_immcall, run.
  destruct sup; [|destruct r; reflexivity].
  destruct r as [T m|T m|r|]; destruct bk, uk; cbn -[src_mkm]; try reflexivity;
    rewrite modifies_known_mutable_source_eq_model; cbn;
    destruct (modifies_known_mutable spec T m); reflexivity.
Qed.

Print Assumptions modifies_known_mutable_source_eq_model.
Print Assumptions is_internal_attribute_source_eq_model.
Print Assumptions immutable_is_safe_attribute_source_eq_model.
Print Assumptions getattr_source_eq_model.
Print Assumptions getitem_source_eq_model.
Print Assumptions call_source_eq_model.
'''

MKM_PROOF = r'''Definition mkm_loop : list stmt := %(mkm_loop)s.
Definition mkm_tail : list stmt := %(mkm_tail)s.
Lemma body_mkm_shape : body_mkm = SFor [%(mkm_typespec)s; %(mkm_unsafe)s] %(mkm_iter)s mkm_loop :: mkm_tail.
Proof. reflexivity. Qed.

(* one iteration of the loop body, as the interpreter runs it *)
Definition mkm_step (spec : list row) (x : pv mobj) (en1 : env mobj) : fres mobj noev :=
  execs mobj noev (mkm_globals spec) yes no_getattr no_getitem mkm_call exn_isa mkm_loop
        (bind_target mobj [%(mkm_typespec)s; %(mkm_unsafe)s] x en1).

Definition row_ty (r : row) : pv mobj :=
  PTy (fun o => match o with MInst T => mem_b T (row_inst r) | MClass _ => false end).

Lemma mkm_step_row : forall spec r en o attr,
  env_get mobj %(mkm_obj)s en = PObj o -> env_get mobj %(mkm_attr)s en = PStr attr ->
  mkm_step spec (row_value r) en =
  if mem_b (mtype o) (row_inst r) then ([], Ret (PBool (mem_s attr (row_attrs r))))
  else ([], Fall ((%(mkm_unsafe)s, PSet (row_attrs r)) :: (%(mkm_typespec)s, row_ty r) :: en)).
Proof.
  intros spec r en o attr Ho Ha. unfold mkm_step, mkm_loop, row_value, row_ty.
  cbn -[mkm_globals]. rewrite Ho. destruct o as [T|T]; cbn; destruct (mem_b T (row_inst r)); cbn; try rewrite Ha; reflexivity.
Qed.

(* the whole loop, by induction over the table: first matching row decides *)
Lemma mkm_iterate : forall spec o attr spec0 en,
  env_get mobj %(mkm_obj)s en = PObj o -> env_get mobj %(mkm_attr)s en = PStr attr ->
  iterate mobj noev (mkm_step spec) (map row_value spec0) en = ([], Ret (PBool (modifies_known_mutable spec0 (mtype o) attr)))
  \/ (exists en', iterate mobj noev (mkm_step spec) (map row_value spec0) en = ([], Fall en')
                   /\ modifies_known_mutable spec0 (mtype o) attr = false).
Proof.
  intros spec o attr spec0. induction spec0 as [|r rest IH]; intros en Ho Ha.
  - right. exists en. split; reflexivity.
  - cbn [map iterate modifies_known_mutable]. rewrite (mkm_step_row spec r en o attr Ho Ha).
    destruct (mem_b (mtype o) (row_inst r)) eqn:Hm.
    + left. reflexivity.
    + cbn [then_ app].
      destruct (IH ((%(mkm_unsafe)s, PSet (row_attrs r)) :: (%(mkm_typespec)s, row_ty r) :: en))
        as [Hi|[en' [Hi Hf]]]; [exact Ho|exact Ha| |].
      * left. rewrite Hi. reflexivity.
      * right. exists en'. rewrite Hi. split; [reflexivity|exact Hf].
Qed.

Theorem modifies_known_mutable_source_eq_model : forall spec o attr,
  src_mkm spec o attr = ([], Norm (PBool (modifies_known_mutable spec (mtype o) attr))).
Proof.
  intros spec o attr. unfold src_mkm. rewrite body_mkm_shape. unfold run.
  cbn [execs].
  assert (Hfor : exec mobj noev (mkm_globals spec) yes no_getattr no_getitem mkm_call exn_isa
                   (SFor [%(mkm_typespec)s; %(mkm_unsafe)s] %(mkm_iter)s mkm_loop) [(%(mkm_obj)s, PObj o); (%(mkm_attr)s, PStr attr)]
                 = iterate mobj noev (mkm_step spec) (map row_value spec) [(%(mkm_obj)s, PObj o); (%(mkm_attr)s, PStr attr)]).
  { cbn [exec eval ret of_eval]. unfold mkm_globals at 1. cbn [String.eqb Ascii.eqb Bool.eqb].
    transitivity (let (l2, f) := iterate mobj noev (mkm_step spec) (map row_value spec) [(%(mkm_obj)s, PObj o); (%(mkm_attr)s, PStr attr)]
                  in (([] : list noev) ++ l2, f)); [reflexivity|].
    destruct (iterate mobj noev (mkm_step spec) (map row_value spec) [(%(mkm_obj)s, PObj o); (%(mkm_attr)s, PStr attr)]); reflexivity. }
  rewrite Hfor.
  destruct (mkm_iterate spec o attr spec [(%(mkm_obj)s, PObj o); (%(mkm_attr)s, PStr attr)] eq_refl eq_refl) as [Hi|[en' [Hi Hf]]];
    rewrite Hi; cbn; [reflexivity|rewrite Hf; reflexivity].
Qed.'''


SECTIONS = ("mkm", "internal", "safe", "other", "imm", "access", "call", "immcall")
NEEDS = {"mkm": (), "internal": (), "safe": ("internal",), "other": (), "imm": ("mkm", "other"),
         "access": ("internal", "safe"), "call": (), "immcall": ("mkm",)}
THEOREMS = {
    "mkm": ["modifies_known_mutable_source_eq_model"],
    "internal": ["is_internal_attribute_source_eq_model"],
    "safe": ["is_safe_attribute_source_eq_model"],
    "other": ["is_internal_attribute_source_eq_model_other", "is_safe_attribute_source_eq_model_other"],
    "imm": ["immutable_is_safe_attribute_source_eq_model"],
    "access": ["getattr_source_eq_model", "getattr_subclass_name_source_eq_model", "getitem_source_eq_model"],
    "call": ["is_safe_callable_source_eq_model", "call_source_eq_model"],
    "immcall": ["immutable_is_safe_callable_source_eq_model"],
}


def emit(src_root, want=SECTIONS):
    """Coq text with the source terms of all eight functions and the equations of the wanted
    sections (plus the sections they depend on); returns (text, theorem names)"""
    t = translate(src_root)
    d = {"root": src_root}
    d["bodies"] = "\n".join(f"Definition body_{k} : list stmt := {t[k]['body']}." for k in FUNCS)
    p = expect_params(t, "mkm", 2)
    d["mkm_obj"], d["mkm_attr"] = q(p[0]), q(p[1])
    lp = t["mkm"]["loop"]
    d["mkm_typespec"], d["mkm_unsafe"] = q(lp["targets"][0]), q(lp["targets"][1])
    d["mkm_loop"], d["mkm_tail"], d["mkm_iter"] = lp["body"], lp["tail"], lp["iter"]
    p = expect_params(t, "internal", 2)
    d["int_obj"], d["int_attr"] = q(p[0]), q(p[1])
    p = expect_params(t, "safe", 4)
    d["safe_self"], d["safe_obj"], d["safe_attr"], d["safe_value"] = map(q, p)
    p = expect_params(t, "imm", 4)
    d["imm_self"], d["imm_obj"], d["imm_attr"], d["imm_value"] = map(q, p)
    p = expect_params(t, "getattr", 3)
    d["ga_self"], d["ga_obj"], d["ga_attr"] = map(q, p)
    p = expect_params(t, "getitem", 3)
    d["gi_self"], d["gi_obj"], d["gi_arg"] = map(q, p)
    p = expect_params(t, "safecall", 2)
    d["sc_self"], d["sc_obj"] = map(q, p)
    p = expect_params(t, "call", 3, star=True)
    d["call_self"], d["call_ctx"], d["call_obj"] = map(q, p)
    if t["call"]["kwarg"] is None:
        raise Untranslatable("SandboxedEnvironment.call: no **kwargs parameter")
    d["call_args"], d["call_kwargs"] = q(t["call"]["vararg"]), q(t["call"]["kwarg"])
    p = expect_params(t, "immcall", 2)
    d["ic_self"], d["ic_obj"] = map(q, p)
    d["mkm_proof"] = MKM_PROOF % d
    full = COQ % d
    # split the template at its section banners
    banner = "(* =================================================================="
    parts = full.split(banner)
    head, secs = parts[0], parts[1:]
    order = ["mkm", "internal", "safe", "other", "imm", "access", "call", "immcall"]
    if len(secs) != len(order):
        raise AssertionError("template sections changed")
    need = set()
    for w in want:
        need.add(w)
        need.update(NEEDS[w])
    text = head
    thms = []
    for name, sec in zip(order, secs):
        if name in need:
            body = sec.split("\nPrint Assumptions")[0]
            text += banner + body + "\n"
            thms += THEOREMS[name]
    text += "\n" + "\n".join(f"Print Assumptions {x}." for x in thms) + "\n"
    return text, thms


if __name__ == "__main__":
    import sys
    print(emit(sys.argv[1] if len(sys.argv) > 1 else "/repo/src", tuple(sys.argv[2:]) or SECTIONS)[0])
