"""T1 translator for C13: regenerate, from $VERIF_REPO/src/jinja2/{lexer,environment}.py with `ast`,
the facts about how a configuration reaches the lexer, and emit a Coq file with the tables and the
obligations over them (predicates, not equality pins).  Fail-closed: an unrecognised shape raises
TranslateError, which the check reports as a broken obligation.

facts
  lexer_key        attributes of `environment` in the tuple `key` of get_lexer (ordered)
  lexer_reads      attributes of `environment` read by Lexer.__init__ and compile_rules
  lexer_other      attributes of an `environment` name read anywhere else in lexer.py
  new_args         positional arguments Template.__new__ passes to get_spontaneous_environment after
                   the class: parameter name, or "<const>" for a literal
  new_params       parameters of Template.__new__ (after cls, source)
  init_params      parameters of Environment.__init__ (after self)
  init_attrs       attributes assigned on self in Environment.__init__
  overlay_params   parameters of Environment.overlay (after self)
  overlay_special  keys deleted from `args` in overlay (handled by dedicated code)
"""
import ast
import os


class TranslateError(Exception):
    pass


def _func(tree, name, cls=None):
    body = tree.body
    if cls is not None:
        for n in body:
            if isinstance(n, ast.ClassDef) and n.name == cls:
                body = n.body
                break
        else:
            raise TranslateError("class %s not found" % cls)
    for n in body:
        if isinstance(n, ast.FunctionDef) and n.name == name:
            return n
    raise TranslateError("function %s.%s not found" % (cls, name))


def _env_attrs(node, envname="environment"):
    out = []
    for n in ast.walk(node):
        if isinstance(n, ast.Attribute) and isinstance(n.value, ast.Name) and n.value.id == envname:
            if n.attr not in out:
                out.append(n.attr)
        elif isinstance(n, ast.Name) and n.id == envname and not isinstance(n.ctx, ast.Load):
            raise TranslateError("`environment` rebound")
    return out


def _uses_bare_env(node, envname="environment"):
    """`environment` used other than as `environment.<attr>` (e.g. passed on, getattr(...))"""
    attr_values = {id(n.value) for n in ast.walk(node) if isinstance(n, ast.Attribute)}
    for n in ast.walk(node):
        if isinstance(n, ast.Name) and n.id == envname and id(n) not in attr_values:
            return True
    return False


def facts(repo):
    src = os.path.join(repo, "src", "jinja2")
    lexer = ast.parse(open(os.path.join(src, "lexer.py")).read())
    env = ast.parse(open(os.path.join(src, "environment.py")).read())
    f = {}

    gl = _func(lexer, "get_lexer")
    key = None
    for n in ast.walk(gl):
        if isinstance(n, ast.Assign) and len(n.targets) == 1 and isinstance(n.targets[0], ast.Name) and n.targets[0].id == "key":
            key = n.value
    if not isinstance(key, ast.Tuple):
        raise TranslateError("get_lexer: `key = (...)` tuple not found")
    f["lexer_key"] = []
    for e in key.elts:
        if not (isinstance(e, ast.Attribute) and isinstance(e.value, ast.Name) and e.value.id == "environment"):
            raise TranslateError("get_lexer: key element is not environment.<attr>")
        f["lexer_key"].append(e.attr)
    # the cache must be consulted with that key and filled with Lexer(environment)
    calls = [n for n in ast.walk(gl) if isinstance(n, ast.Call) and isinstance(n.func, ast.Name) and n.func.id == "Lexer"]
    if len(calls) != 1:
        raise TranslateError("get_lexer: expected exactly one Lexer(environment) call")

    # get_lexer must not write onto the (shared, cached) lexer object
    stores = []
    for n in ast.walk(gl):
        targets = []
        if isinstance(n, ast.Assign):
            targets = n.targets
        elif isinstance(n, (ast.AugAssign, ast.AnnAssign)):
            targets = [n.target]
        for tg in targets:
            for m in ast.walk(tg):
                if isinstance(m, ast.Attribute) and isinstance(m.ctx, ast.Store):
                    stores.append(m.attr)
        if isinstance(n, ast.Call) and isinstance(n.func, ast.Name) and n.func.id == "setattr":
            stores.append("<setattr>")
    f["get_lexer_stores"] = stores

    init = _func(lexer, "__init__", "Lexer")
    cr = _func(lexer, "compile_rules")
    if _uses_bare_env(init) and not all(
            isinstance(n.func, ast.Name) and n.func.id == "compile_rules"
            for n in ast.walk(init) if isinstance(n, ast.Call) and any(isinstance(a, ast.Name) and a.id == "environment" for a in n.args)):
        raise TranslateError("Lexer.__init__ passes `environment` to something other than compile_rules")
    if _uses_bare_env(cr):
        raise TranslateError("compile_rules uses `environment` other than by attribute")
    reads = _env_attrs(init)
    for a in _env_attrs(cr):
        if a not in reads:
            reads.append(a)
    f["lexer_reads"] = reads
    other = []
    for n in ast.walk(lexer):
        if isinstance(n, ast.FunctionDef) and n not in (init, cr, gl):
            for a in _env_attrs(n):
                if a not in other:
                    other.append(a)
    f["lexer_other"] = other

    new = _func(env, "__new__", "Template")
    f["new_params"] = [a.arg for a in new.args.args[2:]]
    call = None
    for n in ast.walk(new):
        if isinstance(n, ast.Call) and isinstance(n.func, ast.Name) and n.func.id == "get_spontaneous_environment":
            call = n
    if call is None or call.keywords:
        raise TranslateError("Template.__new__: positional get_spontaneous_environment(...) call not found")
    args = []
    for a in call.args[1:]:
        if isinstance(a, ast.Name):
            args.append(a.id)
        elif (isinstance(a, ast.Call) and isinstance(a.func, ast.Name) and a.func.id in ("frozenset", "tuple", "list", "set")
              and len(a.args) == 1 and not a.keywords and isinstance(a.args[0], ast.Name)):
            # a container conversion of the parameter (made hashable / ordered for the lru_cache key)
            args.append(a.args[0].id)
        elif isinstance(a, ast.Constant):
            args.append("<const>")
        else:
            raise TranslateError("Template.__new__: unrecognised argument shape")
    f["new_args"] = args

    einit = _func(env, "__init__", "Environment")
    if einit.args.vararg or einit.args.kwonlyargs or einit.args.kwarg:
        raise TranslateError("Environment.__init__: unexpected signature")
    f["init_params"] = [a.arg for a in einit.args.args[1:]]
    attrs = []
    for n in ast.walk(einit):
        if isinstance(n, (ast.Assign, ast.AnnAssign)):
            targets = n.targets if isinstance(n, ast.Assign) else [n.target]
            for t in targets:
                if isinstance(t, ast.Attribute) and isinstance(t.value, ast.Name) and t.value.id == "self" and t.attr not in attrs:
                    attrs.append(t.attr)
    f["init_attrs"] = attrs

    ov = _func(env, "overlay", "Environment")
    f["overlay_params"] = [a.arg for a in ov.args.args[1:]]
    special = []
    for n in ast.walk(ov):
        if isinstance(n, ast.Delete):
            for t in n.targets:
                if isinstance(t, ast.Subscript) and isinstance(t.value, ast.Name) and t.value.id == "args" and isinstance(t.slice, ast.Constant):
                    special.append(t.slice.value)
    f["overlay_special"] = [s for s in special if s != "self"]
    # overlay must copy the remaining args with setattr(rv, key, value)
    if not any(isinstance(n, ast.Call) and isinstance(n.func, ast.Name) and n.func.id == "setattr" for n in ast.walk(ov)):
        raise TranslateError("overlay: setattr(rv, key, value) loop not found")
    return f


MODEL_FIELDS = ["block_start_string", "block_end_string", "variable_start_string", "variable_end_string",
                "comment_start_string", "comment_end_string", "line_statement_prefix", "line_comment_prefix",
                "trim_blocks", "lstrip_blocks", "newline_sequence", "keep_trailing_newline"]


def coq_list(xs):
    return "[" + "; ".join('"%s"' % x for x in xs) + "]"


_TEMPLATE = """(* generated by gen/lex_envfacts.py from src/jinja2/lexer.py and environment.py -- do not edit *)
From Coq Require Import List String Bool Arith.
Import ListNotations.
Open Scope string_scope.

Definition lexer_key : list string := %s.
Definition lexer_reads : list string := %s.
Definition lexer_other : list string := %s.
Definition get_lexer_stores : list string := %s.
Definition new_params : list string := %s.
Definition new_args : list string := %s.
Definition init_params : list string := %s.
Definition init_attrs : list string := %s.
Definition overlay_params : list string := %s.
Definition overlay_special : list string := %s.
(* the fields of the lexer model's configuration record (Model/LexBase.v cfg), by option name *)
Definition model_fields : list string := %s.

Definition mem (x : string) (l : list string) : bool := existsb (String.eqb x) l.
Definition subset (a b : list string) : bool := forallb (fun x => mem x b) a.
Fixpoint forallb2 (f : string -> string -> bool) (a b : list string) : bool :=
  match a, b with
  | [], [] => true
  | x :: a', y :: b' => f x y && forallb2 f a' b'
  | _, _ => false
  end.

(* every attribute the lexer constructor reads is part of the cache key: two environments
   that get the same cached Lexer are indistinguishable to Lexer.__init__ / compile_rules,
   and no other code of lexer.py looks at an environment *)
Lemma lexer_cache_transparent : subset lexer_reads lexer_key = true /\\ lexer_other = [] /\\ get_lexer_stores = [].
Proof. vm_compute. repeat split; reflexivity. Qed.

(* the options the lexer reads are exactly the fields of the model's configuration record *)
Lemma lexer_reads_are_model_fields : subset lexer_reads model_fields = true /\\ subset model_fields lexer_key = true.
Proof. vm_compute. split; reflexivity. Qed.

(* Template.__new__ hands its parameters to Environment.__init__ in __init__'s parameter order
   (a literal only where Template has no such parameter), and no lexer option is replaced by a literal *)
Lemma spontaneous_env_args :
  forallb2 (fun a p => String.eqb a p || (String.eqb a "<const>" && negb (mem p new_params))) new_args init_params = true
  /\\ subset lexer_key new_params = true.
Proof. vm_compute. split; reflexivity. Qed.

(* every overlay parameter is an __init__ parameter, is either copied by setattr onto an attribute
   __init__ assigns or handled by dedicated code, and every lexer option can be overlaid *)
Lemma overlay_copies :
  subset overlay_params init_params = true
  /\\ forallb (fun p => mem p overlay_special || mem p init_attrs) overlay_params = true
  /\\ subset lexer_key overlay_params = true.
Proof. vm_compute. repeat split; reflexivity. Qed.
"""


def coq_text(f):
    vals = [coq_list(f[k]) for k in ("lexer_key", "lexer_reads", "lexer_other", "get_lexer_stores", "new_params", "new_args", "init_params",
                                     "init_attrs", "overlay_params", "overlay_special")] + [coq_list(MODEL_FIELDS)]
    return _TEMPLATE % tuple(vals)


def lex_facts(repo):
    """names called (functions, methods) in the body of Environment.lex, for the C39 obligation"""
    src = os.path.join(repo, "src", "jinja2")
    env = ast.parse(open(os.path.join(src, "environment.py")).read())
    fn = _func(env, "lex", "Environment")
    calls = []
    for n in ast.walk(fn):
        if isinstance(n, ast.Call):
            f = n.func
            nm = f.attr if isinstance(f, ast.Attribute) else (f.id if isinstance(f, ast.Name) else None)
            if nm is None:
                raise TranslateError("Environment.lex: unrecognised call shape")
            if nm not in calls:
                calls.append(nm)
    return {"lex_calls": calls}


_LEX_TEMPLATE = """(* generated by gen/lex_envfacts.py from src/jinja2/environment.py -- do not edit *)
From Coq Require Import List String Bool.
Import ListNotations.
Open Scope string_scope.

Definition lex_calls : list string := %s.
Definition mem (x : string) (l : list string) : bool := existsb (String.eqb x) l.

(* Environment.lex hands the given source to the lexer's tokeniter and runs no preprocessing hook
   (documented: "This does not perform preprocessing") *)
Lemma lex_is_raw : mem "tokeniter" lex_calls = true /\\ mem "preprocess" lex_calls = false /\\ mem "_tokenize" lex_calls = false /\\ mem "_parse" lex_calls = false.
Proof. vm_compute. repeat split; reflexivity. Qed.
"""


def coq_text_lex(f):
    return _LEX_TEMPLATE % coq_list(f["lex_calls"])


if __name__ == "__main__":
    import sys
    print(coq_text(facts(sys.argv[1] if len(sys.argv) > 1 else "/repo")))
