"""Canonical text (gen/sbx_tables._strip) of the sandbox.py functions the Gallina models
(Model/SbxAttr.v, SbxMutable.v, SbxAccess.v, SbxCall.v) were written against.  Regenerate with
`PYTHONPATH=/repo/src:/verif /venv/bin/python -c "from gen import sbx_tables as t; t.dump_shapes('/repo/src')"`
ONLY after re-reading the models against the new code."""
EXPECTED = {'ImmutableSandboxedEnvironment.is_safe_attribute': "arguments(posonlyargs=[], args=[arg(arg='self'), arg(arg='obj'), "
                                                    "arg(arg='attr'), arg(arg='value')], kwonlyargs=[], "
                                                    'kw_defaults=[], defaults=[])\n'
                                                    'if not super().is_safe_attribute(obj, attr, value):\n'
                                                    '    return False\n'
                                                    'return not modifies_known_mutable(obj, attr)',
 'SandboxedEnvironment.call': "arguments(posonlyargs=[arg(arg='__self'), arg(arg='__context'), arg(arg='__obj')], "
                              "args=[], vararg=arg(arg='args'), kwonlyargs=[], kw_defaults=[], "
                              "kwarg=arg(arg='kwargs'), defaults=[])\n"
                              'if not __self.is_safe_callable(__obj):\n'
                              '    try:\n'
                              '        name = repr(__obj)\n'
                              '    except Exception:\n'
                              "        name = f'<{type(__obj).__name__} object>'\n"
                              "    raise SecurityError(f'{name} is not safely callable')\n"
                              'fmt = __self.wrap_str_format(__obj)\n'
                              'if fmt is not None:\n'
                              '    __obj = fmt\n'
                              'return __context.call(__obj, *args, **kwargs)',
 'SandboxedEnvironment.getattr': "arguments(posonlyargs=[], args=[arg(arg='self'), arg(arg='obj'), "
                                 "arg(arg='attribute')], kwonlyargs=[], kw_defaults=[], defaults=[])\n"
                                 'if isinstance(attribute, str):\n'
                                 '    attribute = _plain_str(attribute)\n'
                                 'try:\n'
                                 '    value = getattr(obj, attribute)\n'
                                 'except AttributeError:\n'
                                 '    try:\n'
                                 '        return obj[attribute]\n'
                                 '    except (TypeError, LookupError, AttributeError):\n'
                                 '        pass\n'
                                 'else:\n'
                                 '    if not self.is_safe_attribute(obj, attribute, value):\n'
                                 '        return self.unsafe_undefined(obj, attribute)\n'
                                 '    fmt = self.wrap_str_format(value)\n'
                                 '    if fmt is not None:\n'
                                 '        return fmt\n'
                                 '    return value\n'
                                 'return self.undefined(obj=obj, name=attribute)',
 'SandboxedEnvironment.getitem': "arguments(posonlyargs=[], args=[arg(arg='self'), arg(arg='obj'), "
                                 "arg(arg='argument')], kwonlyargs=[], kw_defaults=[], defaults=[])\n"
                                 'try:\n'
                                 '    return obj[argument]\n'
                                 'except (AttributeError, TypeError, LookupError):\n'
                                 '    if isinstance(argument, str):\n'
                                 '        attr = _plain_str(str(argument))\n'
                                 '        try:\n'
                                 '            value = getattr(obj, attr)\n'
                                 '        except AttributeError:\n'
                                 '            pass\n'
                                 '        else:\n'
                                 '            if not self.is_safe_attribute(obj, attr, value):\n'
                                 '                return self.unsafe_undefined(obj, attr)\n'
                                 '            fmt = self.wrap_str_format(value)\n'
                                 '            if fmt is not None:\n'
                                 '                return fmt\n'
                                 '            return value\n'
                                 'return self.undefined(obj=obj, name=argument)',
 'SandboxedEnvironment.is_safe_attribute': "arguments(posonlyargs=[], args=[arg(arg='self'), arg(arg='obj'), "
                                           "arg(arg='attr'), arg(arg='value')], kwonlyargs=[], kw_defaults=[], "
                                           'defaults=[])\n'
                                           "return not (attr.startswith('_') or is_internal_attribute(obj, attr))",
 'SandboxedEnvironment.is_safe_callable': "arguments(posonlyargs=[], args=[arg(arg='self'), arg(arg='obj')], "
                                          'kwonlyargs=[], kw_defaults=[], defaults=[])\n'
                                          'if isinstance(obj, partial) and (not self.is_safe_callable(obj.func)):\n'
                                          '    return False\n'
                                          "call = getattr(type(obj), '__call__', None)\n"
                                          "icall = getattr(obj, '__call__', None)\n"
                                          "return not (getattr(obj, 'unsafe_callable', False) or getattr(obj, "
                                          "'alters_data', False) or getattr(call, 'unsafe_callable', False) or "
                                          "getattr(call, 'alters_data', False) or getattr(icall, 'unsafe_callable', "
                                          "False) or getattr(icall, 'alters_data', False))",
 'SandboxedEnvironment.unsafe_undefined': "arguments(posonlyargs=[], args=[arg(arg='self'), arg(arg='obj'), "
                                          "arg(arg='attribute')], kwonlyargs=[], kw_defaults=[], defaults=[])\n"
                                          "return self.undefined(f'access to attribute {attribute!r} of "
                                          "{type(obj).__name__!r} object is unsafe.', name=attribute, obj=obj, "
                                          'exc=SecurityError)',
 'SandboxedEnvironment.wrap_str_format': "arguments(posonlyargs=[], args=[arg(arg='self'), arg(arg='value')], "
                                         'kwonlyargs=[], kw_defaults=[], defaults=[])\n'
                                         'if isinstance(value, partial):\n'
                                         '    inner = self.wrap_str_format(value.func)\n'
                                         '    if inner is None:\n'
                                         '        return None\n'
                                         '    return partial(inner, *value.args, **value.keywords)\n'
                                         'if isinstance(value, types.MethodDescriptorType) and value.__name__ in '
                                         "('format', 'format_map') and issubclass(value.__objclass__, str) or value is "
                                         'Markup.format or value is Markup.format_map:\n'
                                         '    method_name = value.__name__\n'
                                         '\n'
                                         '    def unbound_wrapper(*args, **kwargs) -> str:\n'
                                         '        if not args or not isinstance(args[0], str):\n'
                                         '            raise TypeError(f"descriptor {method_name!r} requires a \'str\' '
                                         'object")\n'
                                         '        bound = self.wrap_str_format(getattr(args[0], method_name))\n'
                                         '        return bound(*args[1:], **kwargs)\n'
                                         '    return update_wrapper(unbound_wrapper, value)\n'
                                         'if not isinstance(value, (types.MethodType, types.BuiltinMethodType)) or '
                                         "value.__name__ not in ('format', 'format_map'):\n"
                                         '    return None\n'
                                         'f_self: A = value.__self__\n'
                                         'if not isinstance(f_self, str):\n'
                                         '    return None\n'
                                         'str_type: A = type(f_self)\n'
                                         "is_format_map = value.__name__ == 'format_map'\n"
                                         'formatter: A\n'
                                         'if isinstance(f_self, Markup):\n'
                                         '    formatter = SandboxedEscapeFormatter(self, escape=f_self.escape)\n'
                                         'else:\n'
                                         '    formatter = SandboxedFormatter(self)\n'
                                         'vformat = formatter.vformat\n'
                                         'def wrapper(*args, **kwargs) -> str:\n'
                                         '    if is_format_map:\n'
                                         '        if kwargs:\n'
                                         "            raise TypeError('format_map() takes no keyword arguments')\n"
                                         '        if len(args) != 1:\n'
                                         "            raise TypeError(f'format_map() takes exactly one argument "
                                         "({len(args)} given)')\n"
                                         '        kwargs = args[0]\n'
                                         '        args = ()\n'
                                         '    return str_type(vformat(f_self, args, kwargs))\n'
                                         'return update_wrapper(wrapper, value)',
 'SandboxedFormatter.get_field': "arguments(posonlyargs=[], args=[arg(arg='self'), arg(arg='field_name'), "
                                 "arg(arg='args'), arg(arg='kwargs')], kwonlyargs=[], kw_defaults=[], defaults=[])\n"
                                 'first, rest = formatter_field_name_split(field_name)\n'
                                 'obj = self.get_value(first, args, kwargs)\n'
                                 'for is_attr, i in rest:\n'
                                 '    if is_attr:\n'
                                 '        obj = self._env.getattr(obj, i)\n'
                                 '    else:\n'
                                 '        obj = self._env.getitem(obj, i)\n'
                                 'return (obj, first)',
 'is_internal_attribute': "arguments(posonlyargs=[], args=[arg(arg='obj'), arg(arg='attr')], kwonlyargs=[], "
                          'kw_defaults=[], defaults=[])\n'
                          'if isinstance(obj, types.FunctionType):\n'
                          '    if attr in UNSAFE_FUNCTION_ATTRIBUTES:\n'
                          '        return True\n'
                          'elif isinstance(obj, types.MethodType):\n'
                          '    if attr in UNSAFE_FUNCTION_ATTRIBUTES or attr in UNSAFE_METHOD_ATTRIBUTES:\n'
                          '        return True\n'
                          'elif isinstance(obj, type):\n'
                          "    if attr == 'mro':\n"
                          '        return True\n'
                          'elif isinstance(obj, (types.CodeType, types.TracebackType, types.FrameType)):\n'
                          '    return True\n'
                          'elif isinstance(obj, types.GeneratorType):\n'
                          '    if attr in UNSAFE_GENERATOR_ATTRIBUTES:\n'
                          '        return True\n'
                          "elif hasattr(types, 'CoroutineType') and isinstance(obj, types.CoroutineType):\n"
                          '    if attr in UNSAFE_COROUTINE_ATTRIBUTES:\n'
                          '        return True\n'
                          "elif hasattr(types, 'AsyncGeneratorType') and isinstance(obj, types.AsyncGeneratorType):\n"
                          '    if attr in UNSAFE_ASYNC_GENERATOR_ATTRIBUTES:\n'
                          '        return True\n'
                          "return attr.startswith('__')",
 'modifies_known_mutable': "arguments(posonlyargs=[], args=[arg(arg='obj'), arg(arg='attr')], kwonlyargs=[], "
                           'kw_defaults=[], defaults=[])\n'
                           'for typespec, unsafe in _mutable_spec:\n'
                           '    if isinstance(obj, typespec) or (isinstance(obj, type) and issubclass(obj, '
                           'typespec)):\n'
                           '        return attr in unsafe\n'
                           'return False'}
EXPECTED_COMPILER = {'CodeGenerator.visit_Call': "arguments(posonlyargs=[], args=[arg(arg='self'), arg(arg='node'), arg(arg='frame'), "
                             "arg(arg='forward_caller')], kwonlyargs=[], kw_defaults=[], "
                             'defaults=[Constant(value=False)])\n'
                             'if self.environment.is_async:\n'
                             "    self.write('(await auto_await(')\n"
                             'if self.environment.sandboxed:\n'
                             "    self.write('environment.call(context, ')\n"
                             'else:\n'
                             "    self.write('context.call(')\n"
                             'self.visit(node.node, frame)\n'
                             "extra_kwargs = {'caller': 'caller'} if forward_caller else None\n"
                             "loop_kwargs = {'_loop_vars': '_loop_vars'} if frame.loop_frame else {}\n"
                             "block_kwargs = {'_block_vars': '_block_vars'} if frame.block_frame else {}\n"
                             'if extra_kwargs:\n'
                             '    extra_kwargs.update(loop_kwargs, **block_kwargs)\n'
                             'elif loop_kwargs or block_kwargs:\n'
                             '    extra_kwargs = dict(loop_kwargs, **block_kwargs)\n'
                             'self.signature(node, frame, extra_kwargs)\n'
                             "self.write(')')\n"
                             'if self.environment.is_async:\n'
                             "    self.write('))')",
 'CodeGenerator.visit_Getattr': "arguments(posonlyargs=[], args=[arg(arg='self'), arg(arg='node'), arg(arg='frame')], "
                                'kwonlyargs=[], kw_defaults=[], defaults=[])\n'
                                'if self.environment.is_async:\n'
                                "    self.write('(await auto_await(')\n"
                                "self.write('environment.getattr(')\n"
                                'self.visit(node.node, frame)\n'
                                "self.write(f', {node.attr!r})')\n"
                                'if self.environment.is_async:\n'
                                "    self.write('))')",
 'CodeGenerator.visit_Getitem': "arguments(posonlyargs=[], args=[arg(arg='self'), arg(arg='node'), arg(arg='frame')], "
                                'kwonlyargs=[], kw_defaults=[], defaults=[])\n'
                                'if isinstance(node.arg, nodes.Slice):\n'
                                '    self.visit(node.node, frame)\n'
                                "    self.write('[')\n"
                                '    self.visit(node.arg, frame)\n'
                                "    self.write(']')\n"
                                'else:\n'
                                '    if self.environment.is_async:\n'
                                "        self.write('(await auto_await(')\n"
                                "    self.write('environment.getitem(')\n"
                                '    self.visit(node.node, frame)\n'
                                "    self.write(', ')\n"
                                '    self.visit(node.arg, frame)\n'
                                "    self.write(')')\n"
                                '    if self.environment.is_async:\n'
                                "        self.write('))')"}
EXPECTED_NODES = {'Getattr.as_const': "arguments(posonlyargs=[], args=[arg(arg='self'), arg(arg='eval_ctx')], kwonlyargs=[], "
                     'kw_defaults=[], defaults=[Constant(value=None)])\n'
                     "if self.ctx != 'load':\n"
                     '    raise Impossible()\n'
                     'eval_ctx = get_eval_context(self, eval_ctx)\n'
                     'try:\n'
                     '    return eval_ctx.environment.getattr(self.node.as_const(eval_ctx), self.attr)\n'
                     'except Exception as e:\n'
                     '    raise Impossible() from e',
 'Getitem.as_const': "arguments(posonlyargs=[], args=[arg(arg='self'), arg(arg='eval_ctx')], kwonlyargs=[], "
                     'kw_defaults=[], defaults=[Constant(value=None)])\n'
                     "if self.ctx != 'load':\n"
                     '    raise Impossible()\n'
                     'eval_ctx = get_eval_context(self, eval_ctx)\n'
                     'try:\n'
                     '    obj = self.node.as_const(eval_ctx)\n'
                     '    arg = self.arg.as_const(eval_ctx)\n'
                     '    if isinstance(self.arg, Slice):\n'
                     '        return obj[arg]\n'
                     '    return eval_ctx.environment.getitem(obj, arg)\n'
                     'except Exception as e:\n'
                     '    raise Impossible() from e'}
EXPECTED_FILTERS = {'make_multi_attrgetter': "def make_multi_attrgetter(environment: 'Environment', attribute: str | int | None, "
                          'postprocess: t.Callable[[t.Any], t.Any] | None=None) -> t.Callable[[t.Any], list[t.Any]]:\n'
                          '    """Returns a callable that looks up the given comma separated\n'
                          '    attributes from a passed object with the rules of the environment.\n'
                          '    Dots are allowed to access attributes of each attribute.  Integer\n'
                          '    parts in paths are looked up as integers.\n'
                          '\n'
                          '    The value returned by the returned callable is a list of extracted\n'
                          '    attribute values.\n'
                          '\n'
                          '    Examples of attribute: "attr1,attr2", "attr1.inner1.0,attr2.inner2.0", etc.\n'
                          '    """\n'
                          '    if isinstance(attribute, str):\n'
                          "        split: t.Sequence[str | int | None] = attribute.split(',')\n"
                          '    else:\n'
                          '        split = [attribute]\n'
                          '    parts = [_prepare_attribute_parts(item) for item in split]\n'
                          '\n'
                          '    def attrgetter(item: t.Any) -> list[t.Any]:\n'
                          '        items = [None] * len(parts)\n'
                          '        for i, attribute_part in enumerate(parts):\n'
                          '            item_i = item\n'
                          '            for part in attribute_part:\n'
                          '                item_i = environment.getitem(item_i, part)\n'
                          '            if postprocess is not None:\n'
                          '                item_i = postprocess(item_i)\n'
                          '            items[i] = item_i\n'
                          '        return items\n'
                          '    return attrgetter'}
