"""T5 translator for jinja2.loaders: FileSystemLoader.get_source, ChoiceLoader.get_source / load,
PrefixLoader.get_loader / get_source / load  ->  terms of Lib/PyLdc.v, with the equations
   interp_fs <term> = Model.Ldr.get_source (LFs ...)           (every file system, search path list, name; induction
                                                                over the search paths inside PyLdc.floop_model)
   interp_choice <term> = first answer of the members           (both methods)
   interp_prefix <term> (interp_get_loader <term>) = Model.Ldr.get_source (LPrefix ...)
Fail-closed: any construct outside the vocabulary raises Untranslatable."""
import ast
import os


class Untranslatable(Exception):
    pass


def strip_doc(body):
    return [s for s in body if not (isinstance(s, ast.Expr) and isinstance(s.value, ast.Constant))]


def u(n):
    return ast.unparse(n)


def method(tree, cls, name):
    c = [n for n in tree.body if isinstance(n, ast.ClassDef) and n.name == cls]
    if len(c) != 1:
        raise Untranslatable(f"class {cls} not found")
    f = [n for n in c[0].body if isinstance(n, ast.FunctionDef) and n.name == name]
    if len(f) != 1:
        raise Untranslatable(f"{cls}.{name} not found")
    return f[0]


def b(x):
    return "true" if x else "false"


# ------------------------------------------------------------------------------------------- FileSystemLoader.get_source
def fs_term(fn):
    args = [a.arg for a in fn.args.args]
    if len(args) != 3:
        raise Untranslatable("FileSystemLoader.get_source signature")
    tpl = args[2]
    names = {}

    def inner(st):
        s = u(st)
        if isinstance(st, ast.Assign) and s == f"{names['filename']} = posixpath.join({names['sp']}, *{names['pieces']})":
            return "FJoin"
        if isinstance(st, ast.If) and not st.orelse and u(st.test) == f"os.path.isfile({names['filename']})":
            return "(FIfIsfile [" + "; ".join(inner(x) for x in st.body) + "])"
        if isinstance(st, ast.Break):
            return "FBreak"
        if isinstance(st, ast.Expr) and "shadow" in names and s == f"{names['shadow']}.append({names['filename']})":
            return "FShadowAppend"
        if isinstance(st, ast.Raise) and isinstance(st.exc, ast.Call) and u(st.exc.func) == "TemplateNotFound" \
                and st.exc.args and u(st.exc.args[0]) == tpl:
            return "FRaiseNotFound"
        raise Untranslatable("statement in the search loop: " + s[:80])

    out = []
    for st in strip_doc(fn.body):
        s = u(st)
        if isinstance(st, ast.Assign) and len(st.targets) == 1 and isinstance(st.targets[0], ast.Name):
            tg = st.targets[0].id
            if u(st.value) == f"split_template_path({tpl})":
                names["pieces"] = tg
                out.append("FSplit")
                continue
            if "filename" in names and u(st.value) == f"os.path.getmtime({names['filename']})":
                names["mtime"] = tg
                out.append("FMtime")
                continue
        if isinstance(st, (ast.Assign, ast.AnnAssign)) and isinstance(st.value, ast.List) and not st.value.elts:
            tg = st.targets[0] if isinstance(st, ast.Assign) else st.target
            if isinstance(tg, ast.Name) and "shadow" not in names:
                names["shadow"] = tg.id
                out.append("FInitShadow")
                continue
        if isinstance(st, ast.For) and isinstance(st.target, ast.Name) and u(st.iter) == "self.searchpath" and "pieces" in names:
            names["sp"] = st.target.id
            # the variable assigned from posixpath.join is the file name
            for x in st.body:
                if isinstance(x, ast.Assign) and isinstance(x.targets[0], ast.Name) and u(x.value).startswith("posixpath.join("):
                    names["filename"] = x.targets[0].id
            if "filename" not in names:
                raise Untranslatable("no posixpath.join in the search loop")
            body = "; ".join(inner(x) for x in st.body)
            orelse = []
            for x in st.orelse:
                # pure message formatting is not part of the behaviour
                if isinstance(x, ast.Assign) and isinstance(x.targets[0], ast.Name) and x.targets[0].id not in names.values() \
                        and not any(isinstance(n, ast.Call) and u(n.func) not in ("len", "repr", "', '.join") for n in ast.walk(x.value)):
                    continue
                orelse.append(inner(x))
            out.append(f"(FFor [{body}] [{'; '.join(orelse)}])")
            continue
        if isinstance(st, ast.With) and len(st.items) == 1 and "filename" in names:
            it = st.items[0]
            if (u(it.context_expr) == f"open({names['filename']}, encoding=self.encoding)" and isinstance(it.optional_vars, ast.Name)
                    and len(st.body) == 1 and isinstance(st.body[0], ast.Assign)
                    and u(st.body[0].value) == f"{it.optional_vars.id}.read()" and isinstance(st.body[0].targets[0], ast.Name)):
                names["contents"] = st.body[0].targets[0].id
                out.append("FRead")
                continue
        if isinstance(st, ast.FunctionDef) and not st.args.args and "mtime" in names:
            fb = strip_doc(st.body)
            checks = False
            if len(fb) == 2 and isinstance(fb[0], ast.If) and "shadow" in names:
                t0 = u(fb[0].test)
                if (t0 == f"any((os.path.isfile(f) for f in {names['shadow']}))" and not fb[0].orelse
                        and [u(x) for x in fb[0].body] == ["return False"]):
                    checks = True
                    fb = fb[1:]
                else:
                    raise Untranslatable("uptodate: first statement " + t0)
            if not (len(fb) == 1 and isinstance(fb[0], ast.Try) and len(fb[0].handlers) == 1 and not fb[0].orelse and not fb[0].finalbody
                    and len(fb[0].body) == 1 and isinstance(fb[0].body[0], ast.Return) and isinstance(fb[0].body[0].value, ast.Compare)):
                raise Untranslatable("uptodate body " + u(st)[:100])
            cmp_ = fb[0].body[0].value
            if not (u(cmp_.left) == f"os.path.getmtime({names['filename']})" and u(cmp_.comparators[0]) == names["mtime"] and len(cmp_.ops) == 1):
                raise Untranslatable("uptodate comparison " + u(cmp_))
            eq = isinstance(cmp_.ops[0], ast.Eq)
            h = fb[0].handlers[0]
            oserr = isinstance(h.type, ast.Name) and h.type.id == "OSError" and [u(x) for x in h.body] == ["return False"]
            names["closure"] = st.name
            out.append(f"(FDefUptodate {b(checks)} {b(eq)} {b(oserr)})")
            continue
        if isinstance(st, ast.Return) and isinstance(st.value, ast.Tuple) and len(st.value.elts) == 3 and "closure" in names:
            e = st.value.elts
            if (u(e[0]) == names.get("contents") and u(e[1]) == f"os.path.normpath({names['filename']})" and u(e[2]) == names["closure"]):
                out.append("FReturn")
                continue
        raise Untranslatable("statement " + s[:80])
    return "[" + "; ".join(out) + "]"


# ------------------------------------------------------------------------------------------- ChoiceLoader
def choice_term(fn, meth):
    args = [a.arg for a in fn.args.args]
    name = args[2]
    out = []
    for st in strip_doc(fn.body):
        if isinstance(st, ast.For) and not st.orelse and isinstance(st.target, ast.Name) and u(st.iter) == "self.loaders":
            lv = st.target.id
            inner = []
            for x in st.body:
                if (isinstance(x, ast.Try) and len(x.handlers) == 1 and not x.orelse and not x.finalbody and len(x.body) == 1
                        and isinstance(x.body[0], ast.Return) and isinstance(x.body[0].value, ast.Call)
                        and u(x.body[0].value.func) == f"{lv}.{meth}"
                        and [u(a) for a in x.body[0].value.args][:2] == [args[1], name]):
                    h = x.handlers[0]
                    catches = isinstance(h.type, ast.Name) and h.type.id in ("TemplateNotFound", "Exception", "BaseException", "LookupError", "IOError", "OSError") \
                        and h.type.id != "OSError"
                    if not all(isinstance(y, ast.Pass) for y in h.body):
                        raise Untranslatable("ChoiceLoader handler body " + u(h)[:60])
                    inner.append(f"(CTryMember {b(catches)})")
                else:
                    raise Untranslatable("ChoiceLoader loop statement " + u(x)[:80])
            out.append("(CFor [" + "; ".join(inner) + "])")
        elif isinstance(st, ast.Raise) and isinstance(st.exc, ast.Call) and u(st.exc.func) == "TemplateNotFound" and u(st.exc.args[0]) == name:
            out.append("CRaiseNotFound")
        else:
            raise Untranslatable(f"ChoiceLoader.{meth} statement " + u(st)[:80])
    return "[" + "; ".join(out) + "]"


# ------------------------------------------------------------------------------------------- PrefixLoader
PEXC = {"ValueError": "PValueError", "KeyError": "PKeyError", "LookupError": "PKeyError"}


def get_loader_term(fn):
    tpl = fn.args.args[1].arg
    body = strip_doc(fn.body)
    if len(body) != 2 or not isinstance(body[0], ast.Try) or not isinstance(body[1], ast.Return):
        raise Untranslatable("PrefixLoader.get_loader shape")
    t = body[0]
    if len(t.handlers) != 1 or t.orelse or t.finalbody or len(t.body) != 2:
        raise Untranslatable("PrefixLoader.get_loader try")
    a1, a2 = t.body
    if not (isinstance(a1, ast.Assign) and isinstance(a1.targets[0], ast.Tuple) and len(a1.targets[0].elts) == 2
            and u(a1.value) == f"{tpl}.split(self.delimiter, 1)"):
        raise Untranslatable("split statement " + u(a1))
    pv, nv = [e.id for e in a1.targets[0].elts]
    if not (isinstance(a2, ast.Assign) and isinstance(a2.targets[0], ast.Name) and u(a2.value) == f"self.mapping[{pv}]"):
        raise Untranslatable("lookup statement " + u(a2))
    lv = a2.targets[0].id
    h = t.handlers[0]
    types = h.type.elts if isinstance(h.type, ast.Tuple) else [h.type]
    classes = []
    for ty in types:
        if not isinstance(ty, ast.Name):
            raise Untranslatable("handler class " + u(ty))
        classes.append(PEXC.get(ty.id, "POther"))
    if not (len(h.body) == 1 and isinstance(h.body[0], ast.Raise) and isinstance(h.body[0].exc, ast.Call)
            and u(h.body[0].exc.func) == "TemplateNotFound" and u(h.body[0].exc.args[0]) == tpl):
        raise Untranslatable("get_loader handler body")
    if u(body[1].value) != f"({lv}, {nv})":
        raise Untranslatable("get_loader return " + u(body[1]))
    return "[PTrySplitLookup [" + "; ".join(classes) + "]; PReturnLoaderName]"


def prefix_term(fn, meth):
    args = [a.arg for a in fn.args.args]
    tpl = args[2]
    body = strip_doc(fn.body)
    if len(body) != 2:
        raise Untranslatable(f"PrefixLoader.{meth} shape")
    a, t = body
    if not (isinstance(a, ast.Assign) and isinstance(a.targets[0], ast.Tuple) and len(a.targets[0].elts) == 2
            and u(a.value) == f"self.get_loader({tpl})"):
        raise Untranslatable("get_loader call " + u(a))
    lv, nv = [e.id for e in a.targets[0].elts]
    if not (isinstance(t, ast.Try) and len(t.handlers) == 1 and not t.orelse and not t.finalbody and len(t.body) == 1
            and isinstance(t.body[0], ast.Return) and isinstance(t.body[0].value, ast.Call)
            and u(t.body[0].value.func) == f"{lv}.{meth}" and [u(x) for x in t.body[0].value.args][:2] == [args[1], nv]):
        raise Untranslatable(f"PrefixLoader.{meth} routed call")
    h = t.handlers[0]
    if not (isinstance(h.type, ast.Name) and h.type.id == "TemplateNotFound"):
        raise Untranslatable("routed handler class")
    rer = (len(h.body) == 1 and isinstance(h.body[0], ast.Raise) and isinstance(h.body[0].exc, ast.Call)
           and u(h.body[0].exc.func) == "TemplateNotFound" and u(h.body[0].exc.args[0]) == tpl)
    return f"[PCallGetLoader; PTryRouted {b(rer)}]"


COQ = r'''(* regenerated from %(root)s/jinja2/loaders.py by gen/ldc_translate.py — do not edit *)
From Coq Require Import List NArith Bool.
Import ListNotations.
From JV Require Import Model.Ldr Spec.LdrSpec Proofs.LdrProofs Lib.PyLdc.
Open Scope N_scope.

(* ---- FileSystemLoader.get_source *)
Definition gen_fs : list fstmt := %(fs)s.
Definition gen_fs_loop : list fstmt := match nth_error gen_fs 2 with Some (FFor b _) => b | _ => [] end.

Lemma gen_fs_iter : forall fs sp s, fexecs_in fs sp gen_fs_loop s = model_iter fs sp s.
Proof.
  intros fs sp s. unfold model_iter. cbn [gen_fs_loop gen_fs nth_error fexecs_in fexec_in f_filename f_pieces f_shadow f_contents f_closure].
  destruct (os_isfile fs (posix_join sp (f_pieces s))); reflexivity.
Qed.

Theorem fs_source_eq_model : forall cv fs sps name,
  fst (fst (interp_fs cv fs name gen_fs sps)) = Some (get_source cv fs (LFs sps) name).
Proof.
  intros cv fs sps name. unfold interp_fs, gen_fs. cbn [fexec_top get_source].
  destruct (split_template_path cv name) as [ps|]; [|reflexivity].
  cbn [f_pieces f_filename f_shadow f_contents f_closure fs0].
  set (s0 := {| f_pieces := ps; f_filename := []; f_shadow := []; f_contents := None; f_closure := None |}).
  pose proof (floop_model fs gen_fs_loop (gen_fs_iter fs) sps s0) as L.
  change (FFor ?b ?o) with (FFor gen_fs_loop o) in *.
  cbn [gen_fs_loop gen_fs nth_error] in L.
  destruct (floop fs _ sps s0) as [[s1 fl] brk].
  destruct fl; try contradiction. destruct brk.
  - destruct L as (c & Hr & Hf & _ & Hc & _). cbn [f_pieces s0] in Hf. rewrite Hr.
    cbn [f_contents f_filename f_pieces f_shadow f_closure fst]. now rewrite Hf.
  - destruct L as [Hf _]. cbn [f_pieces s0] in Hf. cbn [fexecs_in fexec_in fst]. now rewrite Hf.
Qed.

(* the closure: watches the earlier candidates, compares the mtime for equality, OSError means "changed" *)
Theorem fs_closure_shape : forall cv fs sps name o fn c,
  fst (fst (interp_fs cv fs name gen_fs sps)) = Some (Found o fn c) ->
  snd (interp_fs cv fs name gen_fs sps) = Some (true, true, true).
Proof.
  intros cv fs sps name o fn c. unfold interp_fs, gen_fs. cbn [fexec_top].
  destruct (split_template_path cv name) as [ps|]; [|discriminate].
  cbn [f_pieces f_filename f_shadow f_contents f_closure fs0].
  set (s0 := {| f_pieces := ps; f_filename := []; f_shadow := []; f_contents := None; f_closure := None |}).
  pose proof (floop_model fs gen_fs_loop (gen_fs_iter fs) sps s0) as L.
  change (FFor ?b ?o) with (FFor gen_fs_loop o) in *.
  cbn [gen_fs_loop gen_fs nth_error] in L.
  destruct (floop fs _ sps s0) as [[s1 fl] brk].
  destruct fl; try contradiction. destruct brk; cbn [fexecs_in fexec_in fst snd]; [|discriminate].
  destruct (os_read fs (f_filename s1)); cbn [fst snd f_contents f_closure]; [reflexivity|discriminate].
Qed.

(* ---- ChoiceLoader.get_source and ChoiceLoader.load *)
Definition gen_choice_get_source : list cstmt := %(cgs)s.
Definition gen_choice_load : list cstmt := %(cld)s.

Lemma choice_eq body : body = [CFor [CTryMember true]; CRaiseNotFound] ->
  forall ms name, interp_choice body ms name = Some (first_found (map (fun m => m name) ms)).
Proof.
  intros -> ms name. unfold interp_choice. cbn [cexec_top].
  rewrite (cloop_first [CTryMember true] ms name); [|intros m; cbn; destruct (m name); reflexivity].
  destruct (first_found (map (fun m => m name) ms)); reflexivity.
Qed.
Theorem choice_get_source_eq_model : forall cv fs ls name,
  interp_choice gen_choice_get_source (map (get_source cv fs) ls) name = Some (get_source cv fs (LChoice ls) name).
Proof. intros. rewrite (choice_eq _ eq_refl), get_source_choice, map_map. reflexivity. Qed.
Theorem choice_load_eq_model : forall cv fs ls name,
  interp_choice gen_choice_load (map (get_source cv fs) ls) name = Some (get_source cv fs (LChoice ls) name).
Proof. intros. rewrite (choice_eq _ eq_refl), get_source_choice, map_map. reflexivity. Qed.

(* ---- PrefixLoader.get_loader, get_source, load *)
Definition gen_get_loader : list pstmt := %(pgl)s.
Definition gen_prefix_get_source : list pstmt := %(pgs)s.
Definition gen_prefix_load : list pstmt := %(pld)s.

Lemma prefix_eq body : body = [PCallGetLoader; PTryRouted true] -> forall cv fs d m name,
  interp_prefix body (interp_get_loader gen_get_loader d m) (get_source cv fs) name = Some (get_source cv fs (LPrefix d m) name).
Proof.
  intros -> cv fs d m name. rewrite get_source_prefix. unfold interp_prefix, interp_get_loader, gen_get_loader.
  destruct (split_once d name) as [[p rest]|]; cbn [existsb pexc_eqb orb]; [|reflexivity].
  destruct (prefix_lookup p m) as [l|]; [|reflexivity]. destruct (get_source cv fs l rest); reflexivity.
Qed.
Theorem prefix_get_source_eq_model : forall cv fs d m name,
  interp_prefix gen_prefix_get_source (interp_get_loader gen_get_loader d m) (get_source cv fs) name = Some (get_source cv fs (LPrefix d m) name).
Proof. exact (prefix_eq _ eq_refl). Qed.
Theorem prefix_load_eq_model : forall cv fs d m name,
  interp_prefix gen_prefix_load (interp_get_loader gen_get_loader d m) (get_source cv fs) name = Some (get_source cv fs (LPrefix d m) name).
Proof. exact (prefix_eq _ eq_refl). Qed.

Print Assumptions fs_source_eq_model.
Print Assumptions choice_get_source_eq_model.
Print Assumptions prefix_get_source_eq_model.
'''


def check_leaf_loaders(tree):
    """FunctionLoader.get_source and DictLoader.get_source: small and pure — pinned statement by statement (fail-closed).
    "not found" is `is None` / `not in the mapping`, never a truth test: an empty template is a template."""
    want = {
        ("FunctionLoader", "get_source"): ["rv = self.load_func(template)", "if rv is None:\n    raise TemplateNotFound(template)",
                                           "if isinstance(rv, str):\n    return (rv, None, None)", "return rv"],
        ("DictLoader", "get_source"): ["if template in self.mapping:\n    source = self.mapping[template]\n"
                                       "    return (source, None, lambda: source == self.mapping.get(template))",
                                       "raise TemplateNotFound(template)"],
    }
    for (cls, meth), stmts in want.items():
        got = [u(x) for x in strip_doc(method(tree, cls, meth).body)]
        if got != stmts:
            raise Untranslatable(f"{cls}.{meth} changed: " + " / ".join(got)[:200])


def emit(src_root):
    tree = ast.parse(open(os.path.join(src_root, "jinja2", "loaders.py")).read())
    check_leaf_loaders(tree)
    d = {"root": src_root}
    d["fs"] = fs_term(method(tree, "FileSystemLoader", "get_source"))
    d["cgs"] = choice_term(method(tree, "ChoiceLoader", "get_source"), "get_source")
    d["cld"] = choice_term(method(tree, "ChoiceLoader", "load"), "load")
    d["pgl"] = get_loader_term(method(tree, "PrefixLoader", "get_loader"))
    d["pgs"] = prefix_term(method(tree, "PrefixLoader", "get_source"), "get_source")
    d["pld"] = prefix_term(method(tree, "PrefixLoader", "load"), "load")
    return COQ % d


if __name__ == "__main__":
    import sys
    print(emit(sys.argv[1] if len(sys.argv) > 1 else "/repo/src"))
