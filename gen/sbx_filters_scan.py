"""T3-lite translator for C19: write footprint of jinja2/filters.py on function parameters.

For every function (sync and async, nested closures included) of filters.py it reports every

  * store / delete through an attribute or subscript whose access path is rooted at a name that
    aliases a parameter (or something reached from one)          kind "store"
  * augmented assignment to such an access path                  kind "augstore"
  * augmented assignment to a bare name aliasing a parameter (``rv = start; rv += x`` extends
    a list argument in place; annotations are not trusted: ``s: str`` did not stop
    ``{{ a_list|indent }}`` from running ``s += newline`` on the list)
                                                                 kind "augassign"
  * call of a known mutator method on such an access path        kind "mutator-call"

Alias analysis: a small flow-sensitive abstract interpretation per function.  The abstract
state maps a local name to "aliases caller data" (with a flag: every root it may alias is a
parameter annotated with an immutable scalar type).  A name becomes an alias when it is a
parameter, or is assigned from a bare alias name (also through ``a if c else b``, ``a or b``,
``:=``, ``t.cast``), or from an attribute / non-slice subscript of an alias, or is the target of
a ``for`` over an alias.  A name bound to the result of a call, a literal, a comprehension, a
slice or arithmetic is fresh (this kills the alias: ``value = list(value)``).  Branches are
joined (alias if alias on either side), loop bodies are interpreted twice.  ``*args`` and
``**kwargs`` parameters are fresh objects by Python's calling convention; a plain parameter of
a module-private helper is fresh when every call site in the module passes the caller's own
``*args`` / ``**kwargs`` object (checked, e.g. prepare_map(context, args, kwargs)).
Fail-closed: ``global`` / ``nonlocal`` / ``match`` / nested classes raise TranslatorError.

The result is data (a list of sites per function); the obligation over it lives in Coq
(Proofs/SbxMutableProofs.filters_clean).
"""
from __future__ import annotations

import ast
import os

MUTATORS = {
    "append", "extend", "update", "pop", "sort", "reverse", "clear", "insert", "remove",
    "setdefault", "add", "discard", "popleft", "appendleft", "extendleft", "rotate", "popitem",
    "difference_update", "intersection_update", "symmetric_difference_update", "__setitem__",
    "__delitem__", "__iadd__", "__imul__", "__ior__", "__iand__", "__isub__", "__ixor__",
}

# Parameter annotations that would exempt a bare-name augmented assignment.  Deliberately empty:
# annotations are not enforced at run time (see the indent finding in known_findings.d/C19.json).
IMMUTABLE_ANN: set = set()


class TranslatorError(Exception):
    pass


def _ann_immutable(ann):
    """True when the annotation names only immutable scalar types (unions allowed)."""
    if ann is None:
        return False
    if isinstance(ann, ast.Constant) and isinstance(ann.value, str):
        try:
            ann = ast.parse(ann.value, mode="eval").body
        except SyntaxError:
            return False
    if isinstance(ann, ast.BinOp) and isinstance(ann.op, ast.BitOr):
        return _ann_immutable(ann.left) and _ann_immutable(ann.right)
    if isinstance(ann, ast.Constant) and ann.value is None:
        return True
    if isinstance(ann, ast.Name):
        return ann.id in IMMUTABLE_ANN
    return False


def _root(node):
    """Name at the bottom of an Attribute/Subscript chain, else None."""
    while isinstance(node, (ast.Attribute, ast.Subscript, ast.Starred)):
        node = node.value
    return node.id if isinstance(node, ast.Name) else None


def _join(a, b):
    out = {}
    for k in set(a) | set(b):
        out[k] = a.get(k, True) and b.get(k, True)
    return out


def _text(n):
    try:
        return ast.unparse(n).split("\n")[0][:60]
    except Exception:  # pragma: no cover
        return "?"


class FnScan:
    def __init__(self, fn, qual, outer_state, fresh_params):
        self.fn = fn
        self.qual = qual
        self.sites = set()
        self.nested = []          # (node, state at definition)
        st = dict(outer_state)
        a = fn.args
        for p in a.posonlyargs + a.args + a.kwonlyargs:
            if p.arg in fresh_params:
                st.pop(p.arg, None)
            else:
                st[p.arg] = _ann_immutable(p.annotation)
        for p in (a.vararg, a.kwarg):
            if p is not None:
                st.pop(p.arg, None)          # a new tuple / dict per call
        self.final = self.block(fn.body, st)

    # ---- alias status of a value expression: None = fresh, else the immutable flag
    def status(self, e, st):
        if isinstance(e, ast.Name):
            return st.get(e.id) if e.id in st else None
        if isinstance(e, ast.Attribute):
            return False if _root(e) in st else None
        if isinstance(e, ast.Subscript):
            if isinstance(e.slice, ast.Slice):
                return None
            return False if _root(e) in st else None
        if isinstance(e, ast.IfExp):
            parts = [self.status(e.body, st), self.status(e.orelse, st)]
        elif isinstance(e, ast.BoolOp):
            parts = [self.status(v, st) for v in e.values]
        elif isinstance(e, ast.NamedExpr):
            parts = [self.status(e.value, st)]
        elif (isinstance(e, ast.Call) and isinstance(e.func, ast.Attribute) and e.func.attr == "cast"
              and len(e.args) == 2):
            parts = [self.status(e.args[1], st)]
        else:
            return None
        parts = [p for p in parts if p is not None]
        if not parts:
            return None
        return all(parts)

    def bind(self, target, status, st):
        if isinstance(target, ast.Name):
            if status is None:
                st.pop(target.id, None)
            else:
                st[target.id] = status
        elif isinstance(target, (ast.Tuple, ast.List)):
            for t in target.elts:
                # unpacking an alias yields things reached from it
                self.bind(t, None if status is None else False, st)
        elif isinstance(target, ast.Starred):
            self.bind(target.value, None, st)
        elif isinstance(target, (ast.Attribute, ast.Subscript)):
            if _root(target) in st:
                self.sites.add((target.lineno, "store", _text(target)))

    # ---- expressions: mutator calls, walrus bindings, comprehension scopes
    def expr(self, e, st):
        if e is None:
            return
        if isinstance(e, (ast.ListComp, ast.SetComp, ast.GeneratorExp, ast.DictComp)):
            inner = dict(st)
            for g in e.generators:
                self.expr(g.iter, inner)
                s = self.status(g.iter, inner)
                self.bind(g.target, None if s is None else False, inner)
                for c in g.ifs:
                    self.expr(c, inner)
            if isinstance(e, ast.DictComp):
                self.expr(e.key, inner)
                self.expr(e.value, inner)
            else:
                self.expr(e.elt, inner)
            return
        if isinstance(e, ast.Lambda):
            inner = dict(st)
            for p in e.args.posonlyargs + e.args.args + e.args.kwonlyargs:
                inner[p.arg] = False
            self.expr(e.body, inner)
            return
        if isinstance(e, ast.NamedExpr):
            self.expr(e.value, st)
            self.bind(e.target, self.status(e.value, st), st)
            return
        if isinstance(e, ast.Call) and isinstance(e.func, ast.Attribute) and e.func.attr in MUTATORS:
            if _root(e.func.value) in st:
                self.sites.add((e.lineno, "mutator-call", _text(e)))
        for c in ast.iter_child_nodes(e):
            if isinstance(c, ast.expr):
                self.expr(c, st)
            elif isinstance(c, (ast.keyword,)):
                self.expr(c.value, st)
            elif isinstance(c, ast.comprehension):  # pragma: no cover
                raise TranslatorError("comprehension outside a comprehension expression")

    # ---- statements
    def block(self, stmts, st):
        for s in stmts:
            st = self.stmt(s, st)
        return st

    def stmt(self, s, st):
        if isinstance(s, ast.Assign):
            self.expr(s.value, st)
            status = self.status(s.value, st)
            for t in s.targets:
                self.bind(t, status, st)
        elif isinstance(s, ast.AnnAssign):
            if s.value is not None:
                self.expr(s.value, st)
                self.bind(s.target, self.status(s.value, st), st)
        elif isinstance(s, ast.AugAssign):
            self.expr(s.value, st)
            if isinstance(s.target, ast.Name):
                if s.target.id in st and not st[s.target.id]:
                    self.sites.add((s.lineno, "augassign", _text(s)))
            elif _root(s.target) in st:
                self.sites.add((s.lineno, "augstore", _text(s)))
        elif isinstance(s, (ast.For, ast.AsyncFor)):
            self.expr(s.iter, st)
            status = self.status(s.iter, st)
            pre = dict(st)
            cur = dict(st)
            for _ in range(2):
                self.bind(s.target, None if status is None else False, cur)
                cur = _join(self.block(s.body, cur), pre)
            st = _join(self.block(s.orelse, dict(cur)), cur)
        elif isinstance(s, ast.While):
            pre = dict(st)
            cur = dict(st)
            for _ in range(2):
                self.expr(s.test, cur)
                cur = _join(self.block(s.body, cur), pre)
            st = _join(self.block(s.orelse, dict(cur)), cur)
        elif isinstance(s, ast.If):
            self.expr(s.test, st)
            a = self.block(s.body, dict(st))
            b = self.block(s.orelse, dict(st))
            st = _join(a, b)
        elif isinstance(s, ast.Try):
            acc = dict(st)
            cur = self.block(s.body, dict(st))
            acc = _join(acc, cur)
            for h in s.handlers:
                hs = dict(acc)
                if h.name:
                    hs.pop(h.name, None)
                acc = _join(acc, self.block(h.body, hs))
            acc = _join(acc, self.block(s.orelse, dict(cur)))
            st = self.block(s.finalbody, acc)
        elif isinstance(s, (ast.With, ast.AsyncWith)):
            for i in s.items:
                self.expr(i.context_expr, st)
                if i.optional_vars is not None:
                    self.bind(i.optional_vars, None, st)
            st = self.block(s.body, st)
        elif isinstance(s, ast.Delete):
            for t in s.targets:
                if isinstance(t, ast.Name):
                    st.pop(t.id, None)
                elif _root(t) in st:
                    self.sites.add((s.lineno, "store", "del " + _text(t)))
        elif isinstance(s, (ast.Return, ast.Expr)):
            self.expr(s.value, st)
        elif isinstance(s, ast.Raise):
            self.expr(s.exc, st)
            self.expr(s.cause, st)
        elif isinstance(s, ast.Assert):
            self.expr(s.test, st)
        elif isinstance(s, (ast.FunctionDef, ast.AsyncFunctionDef)):
            self.nested.append((s, dict(st)))
            st.pop(s.name, None)
        elif isinstance(s, (ast.Pass, ast.Break, ast.Continue, ast.Import, ast.ImportFrom)):
            pass
        else:
            raise TranslatorError(f"{self.qual}: statement {type(s).__name__} at line {s.lineno} is outside the recognised subset")
        return st


def scan_function(fn, qual, outer_state, fresh_params=()):
    fs = FnScan(fn, qual, outer_state, set(fresh_params))
    result = [(qual, sorted(fs.sites))]
    for n, st in fs.nested:
        # a closure runs later: it may see the state at its definition or any later one
        result += scan_function(n, qual + "." + n.name, _join(st, fs.final))
    return result


def _helper_fresh_params(tree):
    """For module-level functions that are not registered in FILTERS: the parameters that at
    every call site inside the module receive the caller's own *args / **kwargs object."""
    registered = set()
    for n in tree.body:
        tgt = None
        if isinstance(n, ast.Assign) and len(n.targets) == 1:
            tgt, val = n.targets[0], n.value
        elif isinstance(n, ast.AnnAssign):
            tgt, val = n.target, n.value
        if isinstance(tgt, ast.Name) and tgt.id == "FILTERS" and isinstance(val, ast.Dict):
            for v in val.values:
                if isinstance(v, ast.Name):
                    registered.add(v.id)
    if not registered:
        raise TranslatorError("FILTERS table not found in filters.py")
    funcs = {n.name: n for n in tree.body if isinstance(n, (ast.FunctionDef, ast.AsyncFunctionDef))}
    # functions wrapped by @async_variant(sync_f) are reachable through the registered name
    uses = {}     # helper name -> list of (caller fn, call node)
    for caller in funcs.values():
        va = {p.arg for p in (caller.args.vararg, caller.args.kwarg) if p is not None}
        for c in ast.walk(caller):
            if isinstance(c, ast.Call) and isinstance(c.func, ast.Name) and c.func.id in funcs:
                uses.setdefault(c.func.id, []).append((va, c))
    # any other mention of the helper (passed as a value, decorator argument) disqualifies it
    mentioned = {}
    for n in ast.walk(tree):
        if isinstance(n, ast.Name) and n.id in funcs and isinstance(n.ctx, ast.Load):
            mentioned[n.id] = mentioned.get(n.id, 0) + 1
    fresh = {}
    for name, fn in funcs.items():
        if name in registered or name not in uses or mentioned.get(name, 0) != len(uses[name]):
            continue
        params = [p.arg for p in fn.args.posonlyargs + fn.args.args]
        ok = set(params)
        for va, c in uses[name]:
            if c.keywords or any(isinstance(a, ast.Starred) for a in c.args):
                ok = set()
                break
            for i, p in enumerate(params):
                if i >= len(c.args) or not (isinstance(c.args[i], ast.Name) and c.args[i].id in va):
                    ok.discard(p)
        if ok:
            fresh[name] = ok
    return fresh


def scan(src_dir):
    path = os.path.join(src_dir, "jinja2", "filters.py")
    tree = ast.parse(open(path, encoding="utf-8").read(), path)
    fresh = _helper_fresh_params(tree)
    out = []
    for n in tree.body:
        if isinstance(n, (ast.FunctionDef, ast.AsyncFunctionDef)):
            out += scan_function(n, n.name, {}, fresh.get(n.name, ()))
        elif isinstance(n, ast.ClassDef):
            for m in n.body:
                if isinstance(m, (ast.FunctionDef, ast.AsyncFunctionDef)):
                    out += scan_function(m, n.name + "." + m.name, {})
    if len(out) < 40:
        raise TranslatorError(f"only {len(out)} functions found in filters.py")
    return out


def coq_string(s):
    s = "".join(c if 32 <= ord(c) <= 126 else "?" for c in s)
    return '"' + s.replace('"', '""') + '"'


def to_coq(facts):
    rows = []
    for qual, sites in facts:
        ss = "; ".join(f"({ln}, {coq_string(kind + ': ' + txt)})" for ln, kind, txt in sites)
        rows.append(f"  ({coq_string(qual)}, [{ss}])")
    return "Definition gen_filter_writes : list (string * list site) := [\n" + ";\n".join(rows) + "\n]."


if __name__ == "__main__":
    import sys
    facts = scan(sys.argv[1] if len(sys.argv) > 1 else "/repo/src")
    print(len(facts), "functions")
    for q, s in facts:
        if s:
            print(q, s)
