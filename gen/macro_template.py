"""Coq text of Gen_macro.v around the terms produced by gen/macro_translate.py.  The proof
script is fixed; what is regenerated on every run is the source term (the seven Definitions at
the top).  Structure: one lemma per top-level statement group of Macro.__call__ against the
corresponding phase of the model (Lib/PyMacro.v: bind_phase / caller_phase / kwargs_phase /
varargs_phase, with macro_call = their composition), the `for` loop by induction over the list
of remaining parameter names (loop_eq)."""

EXPECTED_LOCALS = ["args", "kwargs", "autoescape", "arguments", "off", "found_caller", "name", "value", "caller"]

TEMPLATE = r'''(* regenerated from %(root)s/jinja2/runtime.py (Macro.__call__) by gen/macro_translate.py — do not edit *)
From Coq Require Import List NArith Bool String Arith Lia.
Import ListNotations.
From JV Require Import Model.Macro Lib.PyMacro.
Open Scope string_scope.

Definition loop_body_1 : list stmt := %(loop_body)s.

Definition stmt_0 : stmt := %(stmt_0)s.
Definition bind_stmts : list stmt := [
%(bind_stmts)s].
Definition caller_stmt : stmt := %(caller_stmt)s.
Definition kwargs_stmt : stmt := %(kwargs_stmt)s.
Definition varargs_stmt : stmt := %(varargs_stmt)s.
Definition return_stmt : stmt := %(return_stmt)s.

Definition mkenv (v_args v_kwargs v_autoescape v_arguments v_off v_found_caller v_name v_value v_caller : pv) : env :=
  [("args", v_args); ("kwargs", v_kwargs); ("autoescape", v_autoescape); ("arguments", v_arguments); ("off", v_off);
   ("found_caller", v_found_caller); ("name", v_name); ("value", v_value); ("caller", v_caller)].

Definition call_body : list stmt := stmt_0 :: bind_stmts ++ [caller_stmt; kwargs_stmt; varargs_stmt; return_stmt].
Definition gen_call (s : rsig) (da : bool) (raw : list rawarg) (kw : kwlist) : flow :=
  execs call_body {| sf_sig := s; sf_da := da |}
        (mkenv (PRaw raw) (PKw kw) PUnbound PUnbound PUnbound PUnbound PUnbound PUnbound PUnbound).

Lemma loop_eq : forall sf names acc kw f v_args v_autoescape v_off v_name v_value v_caller,
  exists nm vl,
  for_loop "name" loop_body_1 sf (map PStr names)
    (mkenv v_args (PKw kw) v_autoescape (PSeq acc) v_off (PB f) v_name v_value v_caller)
  = let '(l, kw', f') := fill names kw f in
    Fall (mkenv v_args (PKw kw') v_autoescape (PSeq (acc ++ map erase l)) v_off (PB f') nm vl v_caller).
Proof.
  intros sf names. induction names as [|n r IH]; intros acc kw f v_args v_autoescape v_off v_name v_value v_caller.
  - exists v_name, v_value. cbn [map for_loop fill erase]. rewrite app_nil_r. reflexivity.
  - unfold mkenv. cbn [map for_loop fill]. unfold loop_body_1 at 1.
    pystepg.
    destruct (kw_pop n kw) as [[v|] kw1] eqn:P; pystepg.
    + destruct (N.eqb n n_caller) eqn:EN; pystepg;
      match goal with |- context [for_loop _ _ _ _ ?E] =>
        match E with context [("arguments", PSeq ?A)] => match E with context [("found_caller", PB ?F)] =>
          destruct (IH A kw1 F v_args v_autoescape v_off (PStr n) (PVal v) v_caller) as [nm [vl H]] end end end;
      unfold mkenv in H; rewrite H;
      destruct (fill r kw1 _) as [[l kw2] f2]; exists nm, vl; cbn [map erase]; rewrite <- app_assoc; reflexivity.
    + apply kw_pop_none in P. subst kw1.
      destruct (N.eqb n n_caller) eqn:EN; pystepg;
      match goal with |- context [for_loop _ _ _ _ ?E] =>
        match E with context [("arguments", PSeq ?A)] => match E with context [("found_caller", PB ?F)] =>
          destruct (IH A kw F v_args v_autoescape v_off (PStr n) PMissing v_caller) as [nm [vl H]] end end end;
      unfold mkenv in H; rewrite H;
      destruct (fill r kw _) as [[l kw2] f2]; exists nm, vl; cbn [map erase]; rewrite <- app_assoc; reflexivity.
Qed.


Ltac split_step :=
  match goal with
  | |- context [if ?b then _ else _] =>
      match b with
      | context [if _ then _ else _] => fail 1
      | context [match _ with _ => _ end] => fail 1
      | _ => destruct b eqn:?
      end
  | |- context [match kw_pop ?n ?k with _ => _ end] =>
      let P := fresh "P" in destruct (kw_pop n k) as [[[| | |]|] ?kw'] eqn:P;
      try (apply kw_pop_none in P; subst)
  | |- context [match ?k with [] => _ | _ :: _ => _ end] => is_var k; destruct k as [|[? ?] ?]
  end.
Ltac finish :=
  rewrite ?map_app, ?map_erase_AVal; cbn [map erase app]; rewrite <- ?app_assoc, ?app_nil_r; cbn [app];
  try reflexivity; try congruence.

Lemma bind_eq : forall names ck cv cc da ARGS ae kw, is_args ARGS = true ->
  let s := {| r_args := names; r_kwargs := ck; r_varargs := cv; r_caller := cc |} in
  exists v_off nm vl,
  execs bind_stmts {| sf_sig := s; sf_da := da |}
    (mkenv ARGS (PKw kw) (PB ae) PUnbound PUnbound PUnbound PUnbound PUnbound PUnbound)
  = let '(a1, kw1, found) := bind_phase s {| c_args := vals_of ARGS; c_kw := kw |} in
    Fall (mkenv ARGS (PKw kw1) (PB ae) (PSeq (map erase a1)) v_off (PB found) nm vl PUnbound).
Proof.
  intros names ck cv cc da ARGS ae kw HA s. subst s.
  destruct ARGS; try discriminate HA; unfold bind_stmts, mkenv, bind_phase; pystepg; rewrite ?map_length;
  (match goal with |- context [Nat.eqb ?a ?b] => destruct (Nat.eqb a b) eqn:EQ end; pystepg; rewrite ?map_length;
   [ do 3 eexists; finish
   | match goal with |- context [for_loop _ _ ?sf (map PStr ?L) ?E] =>
       match E with context [("arguments", PSeq ?A)] => match E with context [("kwargs", PKw ?K)] =>
       match E with context [("found_caller", PB ?F)] => match E with context [("autoescape", ?AE)] =>
       match E with context [("args", ?AR)] => match E with context [("off", ?OFF)] =>
         let HL := fresh "HL" in
         destruct (loop_eq sf L A K F AR AE OFF PUnbound PUnbound PUnbound) as [nm [vl HL]];
         unfold mkenv in HL; rewrite HL; clear HL
       end end end end end end end;
     match goal with |- context [fill ?L ?K ?F] => destruct (fill L K F) as [[filled kw1] found] end;
     do 3 eexists; finish ]).
Qed.

Lemma caller_eq : forall names ck cv cc da ARGS ae a1 kw1 found v_off v_name v_value v_caller,
  let s := {| r_args := names; r_kwargs := ck; r_varargs := cv; r_caller := cc |} in
  exists cl,
  exec caller_stmt {| sf_sig := s; sf_da := da |}
    (mkenv ARGS (PKw kw1) (PB ae) (PSeq (map erase a1)) v_off (PB found) v_name v_value v_caller)
  = let '(a2, kw2) := caller_phase s a1 kw1 found in
    Fall (mkenv ARGS (PKw kw2) (PB ae) (PSeq (map erase a2)) v_off (PB found) v_name v_value cl).
Proof.
  intros names ck cv [] da ARGS ae a1 kw1 [] v_off v_name v_value v_caller s; subst s;
  unfold caller_stmt, mkenv, caller_phase; pystepg; try (eexists; reflexivity);
  destruct (kw_pop n_caller kw1) as [[[| | |]|] kw'] eqn:P; pystepg;
  try (apply kw_pop_none in P; subst); eexists; finish.
Qed.

Lemma kwargs_eq : forall names ck cv cc da ARGS ae a2 kw2 v_off v_found v_name v_value v_caller,
  let s := {| r_args := names; r_kwargs := ck; r_varargs := cv; r_caller := cc |} in
  exec kwargs_stmt {| sf_sig := s; sf_da := da |}
    (mkenv ARGS (PKw kw2) (PB ae) (PSeq (map erase a2)) v_off v_found v_name v_value v_caller)
  = match kwargs_phase s a2 kw2 with
    | Ok a3 => Fall (mkenv ARGS (PKw kw2) (PB ae) (PSeq (map erase a3)) v_off v_found v_name v_value v_caller)
    | Err e => Raise (XTypeError e)
    end.
Proof.
  intros names [] cv cc da ARGS ae a2 kw2 v_off v_found v_name v_value v_caller s; subst s;
  unfold kwargs_stmt, mkenv, kwargs_phase; pystepg; try finish.
  destruct kw2 as [|[k v] r]; pystepg; try finish.
  destruct (kw_has n_caller ((k, v) :: r)); pystepg; finish.
Qed.

Lemma varargs_eq : forall names ck cv cc da ARGS ae kw a3 v_kw v_off v_found v_name v_value v_caller, is_args ARGS = true ->
  let s := {| r_args := names; r_kwargs := ck; r_varargs := cv; r_caller := cc |} in
  exec varargs_stmt {| sf_sig := s; sf_da := da |}
    (mkenv ARGS v_kw (PB ae) (PSeq (map erase a3)) v_off v_found v_name v_value v_caller)
  = match varargs_phase s {| c_args := vals_of ARGS; c_kw := kw |} a3 with
    | Ok a4 => Fall (mkenv ARGS v_kw (PB ae) (PSeq (map erase a4)) v_off v_found v_name v_value v_caller)
    | Err e => Raise (XTypeError e)
    end.
Proof.
  intros names ck [] cc da ARGS ae kw a3 v_kw v_off v_found v_name v_value v_caller HA s; subst s;
  destruct ARGS; try discriminate HA; unfold varargs_stmt, mkenv, varargs_phase; pystepg; try finish;
  match goal with |- context [Nat.ltb ?a ?b] => destruct (Nat.ltb a b) end; pystepg; finish.
Qed.

Lemma return_eq : forall sf ARGS v_kw ae a4 v_off v_found v_name v_value v_caller,
  exec return_stmt sf (mkenv ARGS v_kw (PB ae) (PSeq (map erase a4)) v_off v_found v_name v_value v_caller)
  = Ret (PInvoke (map erase a4) ae).
Proof. intros. unfold return_stmt, mkenv. pystepg. reflexivity. Qed.

Lemma rest_eq : forall s da ARGS ae kw, is_args ARGS = true ->
  execs (bind_stmts ++ [caller_stmt; kwargs_stmt; varargs_stmt; return_stmt]) {| sf_sig := s; sf_da := da |}
    (mkenv ARGS (PKw kw) (PB ae) PUnbound PUnbound PUnbound PUnbound PUnbound PUnbound)
  = present (ae, macro_call s {| c_args := vals_of ARGS; c_kw := kw |}).
Proof.
  intros [names ck cv cc] da ARGS ae kw HA. rewrite execs_app, macro_call_phases.
  destruct (bind_eq names ck cv cc da ARGS ae kw HA) as [v_off [nm [vl HB]]]. cbv zeta in HB. rewrite HB. clear HB.
  destruct (bind_phase _ _) as [[a1 kw1] found].
  cbn [execs].
  destruct (caller_eq names ck cv cc da ARGS ae a1 kw1 found v_off nm vl PUnbound) as [cl HC]. cbv zeta in HC.
  rewrite HC. clear HC. destruct (caller_phase _ a1 kw1 found) as [a2 kw2].
  pose proof (kwargs_eq names ck cv cc da ARGS ae a2 kw2 v_off (PB found) nm vl cl) as HK. cbv zeta in HK.
  rewrite HK. clear HK. destruct (kwargs_phase _ a2 kw2) as [a3|e]; [|reflexivity].
  pose proof (varargs_eq names ck cv cc da ARGS ae kw a3 (PKw kw2) v_off (PB found) nm vl cl HA) as HV. cbv zeta in HV.
  rewrite HV. clear HV. destruct (varargs_phase _ _ a3) as [a4|e]; [|reflexivity].
  rewrite return_eq. reflexivity.
Qed.

Theorem call_source_eq_model : forall s da raw kw,
  gen_call s da raw kw = present (macro_entry s da raw kw).
Proof.
  intros s da raw kw. unfold gen_call, call_body, macro_entry, strip_evalctx. cbn [execs].
  unfold stmt_0 at 1, mkenv at 1.
  destruct raw as [|[a|v] r]; pystepg; fold (mkenv) ; try reflexivity.
  - exact (rest_eq s da (PRaw []) da kw eq_refl).
  - exact (rest_eq s da (PVals (map raw_value r)) a kw eq_refl).
  - exact (rest_eq s da (PRaw (RVal v :: r)) da kw eq_refl).
Qed.
Print Assumptions call_source_eq_model.
'''


def render(t, src_root):
    from macro_translate import Untranslatable
    if t["locals"] != EXPECTED_LOCALS:
        raise Untranslatable("local variables of __call__ changed: %r" % (t["locals"],))
    terms = t["terms"]
    k = [i for i, x in enumerate(terms) if "(SFor " in x]
    if len(k) != 1 or k[0] < 1 or len(terms) != k[0] + 5 or not terms[-1].startswith("(SReturnInvoke"):
        raise Untranslatable("top-level statement structure of __call__ changed (%d statements)" % len(terms))
    k = k[0]
    (target, loop_body), = t["loops"]
    if target != "name":
        raise Untranslatable("loop variable renamed: " + target)
    return TEMPLATE % {
        "root": src_root, "loop_body": loop_body, "stmt_0": terms[0],
        "bind_stmts": ";\n".join(terms[1:k + 1]), "caller_stmt": terms[k + 1], "kwargs_stmt": terms[k + 2],
        "varargs_stmt": terms[k + 3], "return_stmt": terms[k + 4]}
