"""T5 translator for runtime.Context.super, BlockReference.super and BlockReference.__call__:
turns the CURRENT source of the three methods into terms of the deep embedding Lib/PyInh.v and emits
the equations  interpreted term = Model.InhRt function  (for every argument).  Fail-closed: any
construct outside the vocabulary raises Untranslatable."""
import ast
import os


class Untranslatable(Exception):
    pass


def q(s):
    return '"%s"' % s


def attr_chain(n):
    """self.a.b.c -> ['self', 'a', 'b', 'c'] or None"""
    parts = []
    while isinstance(n, ast.Attribute):
        parts.append(n.attr)
        n = n.value
    if isinstance(n, ast.Name):
        parts.append(n.id)
        return list(reversed(parts))
    return None


SELF_ATTRS = {"blocks", "name", "_stack", "_depth", "_context"}


def expr(n):
    if isinstance(n, ast.Name):
        return "ESelfObj" if n.id == "self" else f"(EVar {q(n.id)})"
    if isinstance(n, ast.Constant) and isinstance(n.value, int) and not isinstance(n.value, bool) and n.value >= 0:
        return f"(EInt {n.value})"
    ch = attr_chain(n) if isinstance(n, ast.Attribute) else None
    if ch:
        if len(ch) == 2 and ch[0] == "self" and ch[1] in SELF_ATTRS:
            return f"(ESelf {q(ch[1])})"
        if ch == ["self", "_context", "environment", "is_async"]:
            return '(EFlag "is_async")'
        if ch == ["self", "_context", "eval_ctx", "autoescape"]:
            return '(EFlag "autoescape")'
        raise Untranslatable("attribute " + ast.unparse(n))
    if isinstance(n, ast.Subscript):
        return f"(ESub {expr(n.value)} {expr(n.slice)})"
    if isinstance(n, ast.BinOp) and isinstance(n.op, ast.Add):
        return f"(EAdd {expr(n.left)} {expr(n.right)})"
    if isinstance(n, ast.Compare) and len(n.ops) == 1 and isinstance(n.ops[0], ast.GtE):
        return f"(EGe {expr(n.left)} {expr(n.comparators[0])})"
    if isinstance(n, ast.Call):
        f = n.func
        if isinstance(f, ast.Name) and f.id == "len" and len(n.args) == 1 and not n.keywords:
            return f"(ELen {expr(n.args[0])})"
        if isinstance(f, ast.Name) and f.id == "BlockReference" and len(n.args) == 4 and not n.keywords:
            return "(EBlockRef " + " ".join(expr(a) for a in n.args) + ")"
        if isinstance(f, ast.Name) and f.id == "Markup" and len(n.args) == 1 and not n.keywords:
            return f"(EMarkup {expr(n.args[0])})"
        if isinstance(f, ast.Attribute):
            ch = attr_chain(f)
            if f.attr == "index" and len(n.args) == 1 and not n.keywords:
                return f"(EIndex {expr(f.value)} {expr(n.args[0])})"
            if ch and ch[-2:] == ["environment", "undefined"] and ch[0] == "self":
                # the message and name= only decorate the Undefined object
                for a in n.args:
                    if not isinstance(a, (ast.JoinedStr, ast.Constant)):
                        raise Untranslatable("undefined() argument " + ast.unparse(a))
                return "EUndefined"
            if ch in (["self", "_context", "environment", "concat"], ["self", "environment", "concat"]) \
                    and len(n.args) == 1 and not n.keywords:
                return f"(EConcat {expr(n.args[0])})"
            if ch == ["self", "_async_call"] and not n.args and not n.keywords:
                return "EAsyncCall"
        if isinstance(f, ast.Subscript) and len(n.args) == 1 and not n.keywords:
            return f"(ECallCtx {expr(f)} {expr(n.args[0])})"
    raise Untranslatable("expression " + ast.unparse(n)[:80])


def stmts(body):
    out = []
    for st in body:
        t = stmt(st)
        if t is not None:
            out.append(t)
    return "[" + "; ".join(out) + "]"


def stmt(st):
    if isinstance(st, ast.Expr) and isinstance(st.value, ast.Constant) and isinstance(st.value.value, str):
        return None
    if isinstance(st, ast.Expr):
        return f"(SExpr {expr(st.value)})"
    if isinstance(st, ast.Assign) and len(st.targets) == 1 and isinstance(st.targets[0], ast.Name):
        return f"(SAssign {q(st.targets[0].id)} {expr(st.value)})"
    if isinstance(st, ast.If) and not st.orelse:
        return f"(SIf {expr(st.test)} {stmts(st.body)})"
    if isinstance(st, ast.Return) and st.value is not None:
        return f"(SReturn {expr(st.value)})"
    if isinstance(st, ast.Try) and len(st.handlers) == 1 and not st.orelse and not st.finalbody:
        h = st.handlers[0]
        if isinstance(h.type, ast.Name) and h.type.id == "LookupError" and h.name is None:
            return f"(STryLookup {stmts(st.body)} {stmts(h.body)})"
    raise Untranslatable("statement " + ast.unparse(st)[:80])


def find_method(tree, cls, name):
    cs = [n for n in tree.body if isinstance(n, ast.ClassDef) and n.name == cls]
    if len(cs) != 1:
        raise Untranslatable(f"class {cls} not found")
    fs = [n for n in cs[0].body if isinstance(n, ast.FunctionDef) and n.name == name]
    if len(fs) != 1:
        raise Untranslatable(f"{cls}.{name} not found (or async / duplicated)")
    return cs[0], fs[0]


def translate(src_root):
    tree = ast.parse(open(os.path.join(src_root, "jinja2", "runtime.py")).read())
    _, f_super = find_method(tree, "Context", "super")
    if [a.arg for a in f_super.args.args] != ["self", "name", "current"] or f_super.args.defaults:
        raise Untranslatable("Context.super signature changed")
    cls, f_bsuper = find_method(tree, "BlockReference", "super")
    if not any(isinstance(d, ast.Name) and d.id == "property" for d in f_bsuper.decorator_list):
        raise Untranslatable("BlockReference.super is no longer a property")
    _, f_call = find_method(tree, "BlockReference", "__call__")
    _, f_init = find_method(tree, "BlockReference", "__init__")
    init = ast.unparse(f_init)
    for need in ("self.name = name", "self._context = context", "self._stack = stack", "self._depth = depth"):
        if need not in init:
            raise Untranslatable("BlockReference.__init__ no longer contains: " + need)
    if [a.arg for a in f_init.args.args] != ["self", "name", "context", "stack", "depth"]:
        raise Untranslatable("BlockReference.__init__ parameter order changed")
    return {"ctx_super": stmts(f_super.body), "bref_super": stmts(f_bsuper.body), "bref_call": stmts(f_call.body)}


COQ = r'''(* regenerated from %(root)s/jinja2/runtime.py by gen/inh_translate.py — do not edit *)
From Coq Require Import List NArith Bool Arith String.
Import ListNotations.
From JV Require Import Model.Inh Model.InhRt Lib.PyInh.
Open Scope string_scope.

Definition body_ctx_super : list stmt := %(ctx_super)s.
Definition body_bref_super : list stmt := %(bref_super)s.
Definition body_bref_call : list stmt := %(bref_call)s.

Definition me0 (B : blocks) : self :=
  {| s_blocks := B; s_name := 0%%N; s_stack := []; s_depth := 0; s_async := false; s_auto := false |}.
Definition me1 (n : name) (st : list fid) (d : nat) (a e : bool) : self :=
  {| s_blocks := []; s_name := n; s_stack := st; s_depth := d; s_async := a; s_auto := e |}.

Ltac crunch :=
  repeat (cbn [execs exec eval bind env_get String.eqb Ascii.eqb Bool.eqb to_rt is_lookup_error
               s_blocks s_name s_stack s_depth s_async s_auto me0 me1] in *;
          match goal with
          | |- context [match ?x with _ => _ end] =>
              match x with
              | context [match _ with _ => _ end] => fail 1
              | _ => destruct x eqn:?
              end
          end);
  cbn [execs exec eval bind env_get String.eqb Ascii.eqb Bool.eqb to_rt is_lookup_error
       s_blocks s_name s_stack s_depth s_async s_auto me0 me1] in *;
  try reflexivity; try congruence.

Theorem ctx_super_source_eq_model : forall (B : blocks) (n : name) (cur : fid),
  to_rt (execs (me0 B) body_ctx_super [("name", VName n); ("current", VFid cur)]) = Some (ctx_super B n cur).
Proof. intros B n cur. unfold body_ctx_super, ctx_super. crunch. Qed.

Theorem bref_super_source_eq_model : forall (n : name) (st : list fid) (d : nat) (a e : bool),
  to_rt (execs (me1 n st d a e) body_bref_super []) = Some (bref_super1 n st d).
Proof. intros n st d a e. unfold body_bref_super, bref_super1. crunch. Qed.

Theorem bref_call_source_eq_model : forall (n : name) (st : list fid) (d : nat) (a e : bool),
  to_rt (execs (me1 n st d a e) body_bref_call []) = Some (bref_call a e st d).
Proof. intros n st d a e. unfold body_bref_call, bref_call. crunch. Qed.

Print Assumptions ctx_super_source_eq_model.
Print Assumptions bref_super_source_eq_model.
Print Assumptions bref_call_source_eq_model.
'''


def emit(src_root):
    d = translate(src_root)
    d["root"] = src_root
    return COQ % d


if __name__ == "__main__":
    import sys
    print(emit(sys.argv[1] if len(sys.argv) > 1 else "/repo/src"))
