"""Translator for the OUTPUT PATH of the code generator (C15 / C16 tie, T-kind of DESIGN §5.1).

Reads the CURRENT source of CodeGenerator._output_child_pre / _output_child_post /
_output_child_to_const, visit_FilterBlock, visit_AssignBlock, visit_Filter (buffer wrap),
return_buffer_contents, macro_body, macro_def, visit_Concat, visit_CallBlock (compiler.py) and
Macro._invoke, BlockReference.__call__ (runtime.py) with python's ast, executes each method body
SYMBOLICALLY for every assignment of the boolean conditions it tests (frame.eval_ctx.volatile,
frame.eval_ctx.autoescape, finalize.src is not None, force_unescaped, node.filter / node.node is not
None, isinstance(node, TemplateData), the runtime flag) and records which wrapper text is emitted.
The result is a Coq record (Model/EscCodegen.v: facts) over which harness/c15.py has coqc prove
facts_ok = true; Proofs/EscCodegenProofs.codegen_sound turns that into the equations the
evaluator of Model/EscLang2.v relies on.  Fail-closed: any statement, condition or emitted text
outside the vocabulary raises Untranslatable.
"""
import ast
import os


class Untranslatable(Exception):
    pass


COND = {
    "frame.eval_ctx.volatile": "vol",
    "frame.eval_ctx.autoescape": "ae",
    "finalize.src is not None": "fin",
    "force_unescaped": "forced",
    "node.filter is not None": "hasfilter",
    "node.node is not None": "hasnode",
    "isinstance(node, nodes.TemplateData)": "tdata",
    "autoescape": "rt",
    "self._context.eval_ctx.autoescape": "rt",
    "self._environment.is_async": "async",
    "self._context.environment.is_async": "async",
    "self.environment.is_async": "async",
    "self.environment.finalize": "envfin",
    "frame.require_output_check": "outcheck",
    "self.has_known_extends": "known_ext",
    "len(macro_ref.node.args) == 1": "onearg",
    "has_safe_repr(const)": "saferepr",
    "isinstance(node.target, nodes.NSRef)": "nsref",
}


class _IfExp(ast.NodeTransformer):
    """resolve conditional expressions over the known conditions"""

    def __init__(self, env):
        self.env = env

    def visit_IfExp(self, node):
        return self.visit(node.body if ev(node.test, self.env) else node.orelse)


def resolved(node, env):
    import copy
    return ast.unparse(_IfExp(env).visit(copy.deepcopy(node)))


def ev(test, env):
    if isinstance(test, ast.UnaryOp) and isinstance(test.op, ast.Not):
        return not ev(test.operand, env)
    if isinstance(test, ast.BoolOp):
        vals = [ev(v, env) for v in test.values]
        return all(vals) if isinstance(test.op, ast.And) else any(vals)
    key = ast.unparse(test)
    if key not in COND:
        raise Untranslatable("condition " + key)
    name = COND[key]
    if name not in env:
        raise Untranslatable("condition " + key + " is not a parameter of this table")
    return env[name]


def lit(arg):
    if isinstance(arg, ast.Constant) and isinstance(arg.value, str):
        return arg.value
    if isinstance(arg, ast.JoinedStr):
        out = ""
        for v in arg.values:
            if isinstance(v, ast.Constant):
                out += v.value
            elif isinstance(v, ast.FormattedValue):
                out += "{}"
            else:
                raise Untranslatable("f-string part")
        return out
    if isinstance(arg, (ast.Attribute, ast.Name)):
        return "<" + ast.unparse(arg) + ">"
    raise Untranslatable("emitted text " + ast.unparse(arg))


def walk(stmts, env, out):
    """-> True when the path returned / raised"""
    for st in stmts:
        if isinstance(st, ast.If):
            if walk(st.body if ev(st.test, env) else st.orelse, env, out):
                return True
        elif isinstance(st, ast.Expr) and isinstance(st.value, ast.Constant) and isinstance(st.value.value, str):
            continue
        elif isinstance(st, ast.Expr) and isinstance(st.value, ast.Call):
            f = st.value.func
            if isinstance(f, ast.Attribute) and isinstance(f.value, ast.Name) and f.value.id == "self":
                if f.attr in ("write", "writeline"):
                    if not st.value.args:
                        raise Untranslatable("write without text")
                    out.append(("w", lit(st.value.args[0])))
                else:
                    out.append(("call", f.attr, ast.unparse(st.value)))
            else:
                out.append(("call", ast.unparse(f), ast.unparse(st.value)))
        elif isinstance(st, (ast.Assign, ast.AnnAssign)):
            tgt = st.targets[0] if isinstance(st, ast.Assign) else st.target
            val = st.value
            out.append(("assign", ast.unparse(tgt), lit(val) if isinstance(val, ast.Constant) and isinstance(val.value, str)
                        else ast.unparse(val)))
        elif isinstance(st, ast.AugAssign):
            out.append(("assign", ast.unparse(st.target), "aug " + ast.unparse(st.value)))
        elif isinstance(st, ast.Return):
            out.append(("ret", resolved(st.value, env) if st.value is not None else ""))
            return True
        elif isinstance(st, ast.Raise):
            out.append(("raise", ast.unparse(st.exc)))
            return True
        elif isinstance(st, ast.With):
            if len(st.items) != 1 or not ast.unparse(st.items[0].context_expr).startswith("self._filter_test_common("):
                raise Untranslatable("with " + ast.unparse(st.items[0].context_expr))
            if walk(st.body, env, out):
                return True
        elif isinstance(st, ast.For):
            out.append(("for", ast.unparse(st.iter)))
            inner = []
            walk(st.body, env, inner)
            out += inner
        else:
            raise Untranslatable("statement " + type(st).__name__ + ": " + ast.unparse(st)[:60])
    return False


def methods(path, cls):
    tree = ast.parse(open(path).read())
    for n in tree.body:
        if isinstance(n, ast.ClassDef) and n.name == cls:
            return {m.name: m for m in n.body if isinstance(m, (ast.FunctionDef, ast.AsyncFunctionDef))}
    raise Untranslatable("class " + cls + " not found")


def run(fn, **env):
    out = []
    walk(fn.body, env, out)
    return out


OW = {"escape(": "WEscape", "str(": "WStr", "(escape if context.eval_ctx.autoescape else str)(": "WSel"}
BW = {"(Markup(concat({})) if context.eval_ctx.autoescape else concat({}))": "BSel", "Markup(concat({}))": "BMarkup",
      "concat({})": "BPlain"}
JW = {"(markup_join if context.eval_ctx.autoescape else str_join)": "BSel", "markup_join": "BMarkup", "str_join": "BPlain"}
B = (False, True)


def b(x):
    return "true" if x else "false"


def writes(evs):
    return [e[1] for e in evs if e[0] == "w"]


def facts(src_root):
    cg = methods(os.path.join(src_root, "jinja2", "compiler.py"), "CodeGenerator")
    need = ["_output_child_pre", "_output_child_post", "_output_child_to_const", "visit_FilterBlock", "visit_AssignBlock",
            "visit_Filter", "return_buffer_contents", "macro_body", "macro_def", "visit_Concat", "visit_CallBlock"]
    for n in need:
        if n not in cg:
            raise Untranslatable("CodeGenerator." + n + " not found")
    f = {}
    # ---- output children
    rows, balanced, td_free = [], True, True
    for vol in B:
        for ae in B:
            kinds = set()
            for fin in B:
                for td in B:
                    pre = run(cg["_output_child_pre"], vol=vol, ae=ae, fin=fin, tdata=td)
                    post = run(cg["_output_child_post"], fin=fin, tdata=td)
                    if any(e[0] not in ("w",) for e in pre + post):
                        raise Untranslatable("_output_child_pre/post: unexpected event " + repr([e for e in pre + post if e[0] != "w"][:1]))
                    wp, wq = writes(pre), writes(post)
                    if not wp or wp[0] not in OW:
                        raise Untranslatable("_output_child_pre emits " + repr(wp))
                    kinds.add(OW[wp[0]])
                    if wp[1:] not in ([], ["<finalize.src>"]):
                        raise Untranslatable("_output_child_pre finalize part " + repr(wp[1:]))
                    has_fin = wp[1:] == ["<finalize.src>"]
                    if has_fin and not fin:
                        raise Untranslatable("_output_child_pre writes finalize.src although it is None")
                    if td and has_fin:
                        td_free = False          # template data must never be finalized
                    if not td and fin and not has_fin:
                        raise Untranslatable("_output_child_pre drops finalize for a non-template-data child")
                    if wq != [")"] * (2 if has_fin else 1):
                        balanced = False
            if len(kinds) != 1:
                raise Untranslatable("wrapper depends on finalize / template data")
            rows.append((vol, ae, kinds.pop()))
    f["out"], f["out_balanced"], f["tdata_no_finalize"] = rows, balanced, td_free
    # ---- constant folding of output children
    rows = []
    for vol in B:
        for ae in B:
            for td in B:
                for envfin in B:
                    # a constant whose repr is not safe to fold is left to the runtime (always allowed)
                    unsafe = run(cg["_output_child_to_const"], vol=vol, ae=ae, tdata=td, envfin=envfin, saferepr=False)
                    if unsafe[-1][0] != "raise" and any(e[0] == "ret" for e in unsafe):
                        # no such guard in this version of the source: both runs are the same path
                        pass
                    evs = run(cg["_output_child_to_const"], vol=vol, ae=ae, tdata=td, envfin=envfin, saferepr=True)
                    if not evs or evs[0] != ("assign", "const", "node.as_const(frame.eval_ctx)"):
                        raise Untranslatable("_output_child_to_const does not start with as_const: " + repr(evs[:1]))
                    rest = evs[1:]
                    esc = False
                    if rest and rest[0] == ("assign", "const", "escape(const)"):
                        esc, rest = True, rest[1:]
                    if rest and rest[0][0] == "raise":
                        if rest[0][1] != "nodes.Impossible()":
                            raise Untranslatable("_output_child_to_const raises " + rest[0][1])
                        kind = "CImpossible"
                    elif rest == [("ret", "str(const)")]:
                        kind = f"(CFold {b(esc)} false)"
                    elif rest == [("ret", "str(escape(const))")] and not esc:
                        kind = "(CFold true false)"
                    elif rest == [("ret", "finalize.const(const)")]:
                        kind = f"(CFold {b(esc)} true)"
                    else:
                        raise Untranslatable("_output_child_to_const tail " + repr(rest))
                    rows.append((vol, ae, td, envfin, kind))
    f["const"] = rows
    # ---- filter block: wrapper around the filter result
    rows = []
    for vol in B:
        for ae in B:
            kinds = set()
            for oc in B:
                evs = [e for e in run(cg["visit_FilterBlock"], vol=vol, ae=ae, outcheck=oc, known_ext=False)
                       if e[0] == "w" or (e[0] == "call" and e[1] in ("start_write", "visit_Filter", "end_write"))]
                shape = [e[1] for e in evs]
                if "start_write" not in shape:
                    raise Untranslatable("visit_FilterBlock shape " + repr(shape))
                shape = shape[shape.index("start_write"):]
                if len(shape) != 5 or shape[2] != "visit_Filter" or shape[3] != ")" or shape[4] != "end_write" or shape[1] not in OW:
                    raise Untranslatable("visit_FilterBlock shape " + repr(shape))
                kinds.add(OW[shape[1]])
            if len(kinds) != 1:
                raise Untranslatable("visit_FilterBlock wrapper depends on require_output_check")
            rows.append((vol, ae, kinds.pop()))
    f["fblock"] = rows
    # ---- buffer handed to the filter of a filter block / set block
    rows = []
    for vol in B:
        for ae in B:
            evs = run(cg["visit_Filter"], hasnode=False, vol=vol, ae=ae)
            w = writes(evs)
            if len(w) != 1 or w[0] not in BW:
                raise Untranslatable("visit_Filter buffer wrap " + repr(w))
            rows.append((vol, ae, BW[w[0]]))
    f["fbuf"] = rows
    # ---- return_buffer_contents
    rows = []
    for forced in B:
        for vol in B:
            for ae in B:
                w = writes(run(cg["return_buffer_contents"], forced=forced, vol=vol, ae=ae))
                if w == ["if context.eval_ctx.autoescape:", "return Markup(concat({}))", "else:", "return concat({})"]:
                    k = "BSel"
                elif w == ["return Markup(concat({}))"]:
                    k = "BMarkup"
                elif w == ["return concat({})"]:
                    k = "BPlain"
                else:
                    raise Untranslatable("return_buffer_contents emits " + repr(w))
                rows.append((forced, vol, ae, k))
    f["retbuf"] = rows
    # ---- set block
    for hasfilter, nsref in [(x, y) for x in B for y in B]:
        evs = [e for e in run(cg["visit_AssignBlock"], hasfilter=hasfilter, nsref=nsref) if e[0] == "w" or (e[0] == "call" and e[1] == "visit_Filter")]
        shape = [e[1] for e in evs]
        starts = [i for i, x in enumerate(shape) if x.startswith(" = (")]
        if len(starts) != 1:
            raise Untranslatable("visit_AssignBlock: no single value wrapper " + repr(shape))
        shape = shape[starts[0]:]          # what precedes is the target (and the namespace guard)
        if hasfilter:
            if shape in ([" = (escape if context.eval_ctx.autoescape else identity)(", "visit_Filter", ")"],
                         [" = (lambda rv: escape(rv) if context.eval_ctx.autoescape and isinstance(rv, str) else rv)(",
                          "visit_Filter", ")"]):
                # strings are escaped by the runtime flag (values of other types keep their type: not text)
                f["assign_filter"] = "AEscSel"
            elif shape == [" = (Markup if context.eval_ctx.autoescape else identity)(", "visit_Filter", ")"]:
                f["assign_filter"] = "AMarkupSel"
            else:
                raise Untranslatable("visit_AssignBlock (filter) shape " + repr(shape))
        else:
            if shape == [" = (Markup if context.eval_ctx.autoescape else identity)(", "concat({})", ")"]:
                f["assign_plain"] = "AMarkupSel"
            else:
                raise Untranslatable("visit_AssignBlock shape " + repr(shape))
    # ---- macro bodies / macro objects / call blocks
    calls = [n for n in ast.walk(cg["macro_body"]) if isinstance(n, ast.Call) and ast.unparse(n.func) == "self.return_buffer_contents"]
    if len(calls) != 1:
        raise Untranslatable("macro_body: return_buffer_contents calls " + str(len(calls)))
    kw = {k.arg: ast.unparse(k.value) for k in calls[0].keywords}
    f["macro_forced"] = kw.get("force_unescaped") == "True"
    ok = True
    for one in B:
        w = writes(run(cg["macro_def"], onearg=one))
        if len(w) != 1 or not w[0].startswith("Macro(environment, macro, "):
            raise Untranslatable("macro_def emits " + repr(w))
        ok = ok and w[0].endswith(", context.eval_ctx.autoescape)")
    f["macro_default_rt"] = ok
    rows = []
    for vol in B:
        for ae in B:
            kinds = set()
            for oc in B:
                evs = run(cg["visit_CallBlock"], vol=vol, ae=ae, outcheck=oc, known_ext=False)
                names = [e[1] for e in evs if e[0] == "w" or (e[0] == "call" and e[1] in (
                    "start_write", "visit_Call", "end_write", "_call_block_result_pre", "_call_block_result_post"))]
                if "start_write" not in names or "end_write" not in names:
                    raise Untranslatable("visit_CallBlock shape " + repr(names))
                shape = names[names.index("start_write"):names.index("end_write") + 1]
                if shape == ["start_write", "_call_block_result_pre", "visit_Call", "_call_block_result_post", "end_write"]:
                    # the wrapper lives in two helper methods (overridden by the native code generator): inline them
                    for h in ("_call_block_result_pre", "_call_block_result_post"):
                        if h not in cg:
                            raise Untranslatable("CodeGenerator." + h + " not found")
                    pre = run(cg["_call_block_result_pre"], vol=vol, ae=ae)
                    post = run(cg["_call_block_result_post"], vol=vol, ae=ae)
                    if any(e[0] != "w" for e in pre + post):
                        raise Untranslatable("_call_block_result_pre/post: unexpected event")
                    shape = ["start_write"] + writes(pre) + ["visit_Call"] + writes(post) + ["end_write"]
                if len(shape) != 5 or shape[2] != "visit_Call" or shape[3] != ")" or shape[1] not in OW:
                    raise Untranslatable("visit_CallBlock shape " + repr(shape))
                kinds.add(OW[shape[1]])
            if len(kinds) != 1:
                raise Untranslatable("visit_CallBlock wrapper depends on require_output_check")
            rows.append((vol, ae, kinds.pop()))
    f["callblock"] = rows
    # ---- ~
    rows = []
    for vol in B:
        for ae in B:
            evs = run(cg["visit_Concat"], vol=vol, ae=ae)
            fn = [e[2] for e in evs if e[0] == "assign" and e[1] == "func_name"]
            if len(fn) != 1 or fn[0] not in JW:
                raise Untranslatable("visit_Concat func_name " + repr(fn))
            if not any(e[0] == "w" and e[1].startswith("{}((") for e in evs):
                raise Untranslatable("visit_Concat does not call func_name")
            rows.append((vol, ae, JW[fn[0]]))
    f["concat"] = rows
    # ---- runtime.py
    rt = os.path.join(src_root, "jinja2", "runtime.py")
    mac, blk = methods(rt, "Macro"), methods(rt, "BlockReference")
    rows = []
    for r in B:
        evs = run(mac["_invoke"], rt=r, **{"async": False})
        if evs[0][0] != "assign" or evs[0][1] != "rv":
            raise Untranslatable("Macro._invoke shape")
        rest = evs[1:]
        if rest == [("assign", "rv", "Markup(rv)"), ("ret", "rv")]:
            rows.append((r, True))
        elif rest == [("ret", "rv")]:
            rows.append((r, False))
        else:
            raise Untranslatable("Macro._invoke tail " + repr(rest))
    f["invoke"] = rows
    rows = []
    for r in B:
        evs = run(blk["__call__"], rt=r, **{"async": False})
        if evs[0][0] != "assign" or evs[0][1] != "rv":
            raise Untranslatable("BlockReference.__call__ shape")
        rest = evs[1:]
        if rest == [("ret", "Markup(rv)")]:
            rows.append((r, True))
        elif rest == [("ret", "rv")]:
            rows.append((r, False))
        else:
            raise Untranslatable("BlockReference.__call__ tail " + repr(rest))
    f["blockref"] = rows
    return f


def tbl(rows):
    return "[" + "; ".join("(" + ", ".join(b(x) if isinstance(x, bool) else x for x in r) + ")" for r in rows) + "]"


def emit(src_root):
    f = facts(src_root)
    return ("From Coq Require Import List Bool.\nImport ListNotations.\n"
            "From JV Require Import Model.EscMarkup Model.EscLang2 Model.EscCodegen Proofs.EscCodegenProofs.\n"
            "Definition observed : facts := {|\n"
            f"  f_out := {tbl(f['out'])};\n  f_out_balanced := {b(f['out_balanced'])};\n  f_tdata_no_finalize := {b(f['tdata_no_finalize'])};\n"
            f"  f_const := {tbl(f['const'])};\n  f_fblock := {tbl(f['fblock'])};\n  f_fbuf := {tbl(f['fbuf'])};\n"
            f"  f_retbuf := {tbl(f['retbuf'])};\n  f_assign_plain := {f['assign_plain']};\n  f_assign_filter := {f['assign_filter']};\n"
            f"  f_concat := {tbl(f['concat'])};\n  f_macro_forced := {b(f['macro_forced'])};\n"
            f"  f_macro_default_rt := {b(f['macro_default_rt'])};\n  f_callblock := {tbl(f['callblock'])};\n"
            f"  f_invoke := {tbl(f['invoke'])};\n  f_blockref := {tbl(f['blockref'])} |}}.\n"
            "Theorem observed_ok : facts_ok observed = true.\nProof. vm_compute. reflexivity. Qed.\n"
            "Definition observed_sound := codegen_sound observed observed_ok.\n"
            "Definition observed_escapes := output_escapes_when_on observed observed_ok.\n")


if __name__ == "__main__":
    import sys
    print(emit(sys.argv[1] if len(sys.argv) > 1 else "/repo/src"))
